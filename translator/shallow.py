#!/usr/bin/env python3
"""Shallow translator: the IR of a small C++ decision function (cxxir.py) -> a Gallina function.

Fragment: if / else, switch on an integer (with fall-through), return, local declarations with an
initialiser, straight-line assignment to a local, log calls (dropped).  Expressions: integer and
boolean literals, parameters and locals, == != < <= > >= && || ! ?: & | + (mod 2^64), casts
(ignored), calls.  Every call to something that is not translated here becomes a PARAMETER of the
generated definition (nullary member calls such as `token->isSOLoggedIn()` become value parameters,
calls with arguments become function parameters, named <receiver>_<method>), so the generated
signature lists exactly what the C++ consults.  Anything outside the fragment raises Unsupported and
no definition is emitted: theorems that mention the function then fail to compile (DESIGN.md 4.1).

Typing is by C++ declared type: `bool` -> bool, everything else integral -> N.  Conditions on N are
`negb (x =? 0)`.
"""
import re


LAST_STOP = None


class Unsupported(Exception):
    pass


BOOL_TYPES = ('bool', 'const bool')


class Ctx:
    def __init__(self, name, consts, ret_bool, extern_types=None):
        self.name = name
        self.consts = consts          # name -> int (enum constants such as ck1..)
        self.ret_bool = ret_bool
        self.types = {}               # variable -> 'bool' | 'N'
        self.externs = []             # [(ident, kind)] in order of first use; kind: 'bool' | 'N' | ('fun', nargs, rettype)
        self.extern_types = extern_types or {}
        self.fresh = 0
        self.eff = False          # effect mode: result is (rv, list of (attribute, value) writes, newest first)
        self.prefix = False       # prefix mode: the first untranslatable top-level statement becomes the parameter `rest`
        self.osattrs = {}         # OSAttribute locals constructed from a boolean literal: name -> '1' | '0'
        self.depth = 0
        self.havoc = False
        self.skip_setters = False
        self.body_text = ''
        self.assigned_locals = set()   # locals (not parameters): their members are not 'caller memory'
        self.written_derefs = set()
        self.enumerators = set()  # identifiers that may be translated as uninterpreted enumerator constants (prefix mode)
        self.opaque = set()       # class-typed locals (ByteString iv, ...): never read by translated code, writes to them are skipped
        self.call_sites = {}      # calls that take an opaque local: one uninterpreted function per call site
        self.int32 = set()        # locals declared int and initialised from a 64-bit value (kept sign-extended)
        self.trace = False        # trace mode: calls on the stateful collaborators (handle manager, object, transaction) are effects
        self.sets_names = {}
        self.lift = False         # lifted mode: every continuation is a definition of its own (small terms for stepwise proofs)
        self.lifted = []
        self.kfv = {}
        self.ptr_params = []      # pointer parameters whose pointee is tracked as the pseudo-variable drf_<p> (trace mode)

    def thunk(self, body, vars=()):
        # vars: [(identifier, type)] assigned inside the construct the continuation follows: passed explicitly
        if not vars:
            return '(fun acc : list (N * N) => %s)' % body if self.eff else '(fun _ : unit => %s)' % body
        ps = ''.join('(%s : %s) ' % (v, t) for (v, t) in vars)
        return '(fun %s(acc : list (N * N)) => %s)' % (ps, body) if self.eff else '(fun %s(_ : unit) => %s)' % (ps, body)

    def callk(self, k, vars=()):
        vs = ''.join('%s ' % v for (v, t) in vars)
        if self.lift:
            return '(%s e %s%sacc)' % (k, ''.join('%s ' % v for (v, t) in self.kfv[k]), vs)
        return '(%s %sacc)' % (k, vs) if self.eff else '(%s %stt)' % (k, vs)

    def bindk(self, kn, krest, kvars, scope, inner):
        """the continuation kn (what follows an if / switch) with the term `inner` that uses it.  Ordinarily a local
        definition `let kn := fun .. => krest in inner`; in lifted mode a definition of its own, whose parameters are the
        environment record, the variables in scope that krest mentions, the variables the construct assigns, and acc"""
        if not self.lift:
            return '(let %s := %s in %s)' % (kn, self.thunk(krest, kvars), inner)
        return inner

    def plan_k(self, kn, krest, kvars, scope):
        # free variables of the continuation: names in scope at the construct that krest mentions (over-approximated)
        kv = {v for (v, t) in kvars}
        ext = {i for (i, _) in self.externs}
        self.kfv[kn] = [(ident(v), scope[v]) for v in sorted(scope) if ident(v) not in kv and ident(v) not in ext and ident(v) != 'acc' and uses_name(krest, ident(v))]
        ps = ''.join('(%s : %s) ' % (v, t) for (v, t) in self.kfv[kn] + list(kvars))
        self.lifted.append('Definition %s (e : env) %s(acc : list (N * N)) : (N * list (N * N)) :=\n    %s.' % (kn, ps, krest))

    def ret(self, v):
        if self.eff and getattr(self, 'out_params', None):
            # reference parameters the caller reads afterwards: their final values, as effects tagged 2^64-16-i
            fin = ' :: '.join('(%d, %s)' % (18446744073709551600 - i, ('(if %s then 1 else 0)' % ident(n)) if self.types.get(n) == 'bool' else ident(n))
                              for i, n in enumerate(self.out_params))
            return '(%s, %s :: acc)' % (v, fin)
        return '(%s, acc)' % v if self.eff else v

    def ifret(self):
        # trace mode: the type of a statement-level `if` is written out (the elaborator otherwise takes minutes and tens of
        # gigabytes on the deeply nested continuations of the longer functions)
        return ' return (N * list (N * N))' if (self.trace and self.eff) else ''

    def extern(self, ident, kind):
        for (i, k) in self.externs:
            if i == ident:
                return
        self.externs.append((ident, kind))


def ident(s):
    return re.sub(r'[^A-Za-z0-9_]', '_', s)


def callee_name(f):
    """identifier for a callee expression"""
    k = f[0]
    if k == 'var':
        return ident(f[1])
    if k == 'field':
        base = f[1]
        m = f[2].split('::')[-1]
        if base[0] == 'this':
            return ident(m)
        if base[0] == 'var':
            return ident(base[1] + '_' + m)
        if base[0] == 'field' and base[1][0] == 'this':
            return ident(base[2].split('::')[-1] + '_' + m)
        if base[0] == 'call':
            return callee_name(base[1]) + '_' + ident(m)
    raise Unsupported('callee ' + repr(f)[:80])


def path_name(c, e):
    """identifier for var / var->f / ((T) var->f)->g ... rooted in a parameter or scalar local; None otherwise"""
    if e[0] == 'var':
        return ident(e[1]) if e[1] in c.types and e[1] not in c.assigned_locals else None
    if e[0] == 'cast':
        inner = path_name(c, e[2])
        return None if inner is None else inner + '_as_' + ident(e[1].replace(' *', '').replace('*', '').replace('struct ', '').strip())
    if e[0] == 'field' and e[1][0] != 'this':
        inner = path_name(c, e[1])
        return None if inner is None else inner + '_' + ident(e[2].split('::')[-1])
    return None


def as_bool(c, e):
    """(term, ) of type bool"""
    t, ty = tr_e(c, e)
    if ty == 'bool':
        return t
    return '(negb (%s =? 0))' % t


def as_N(c, e):
    t, ty = tr_e(c, e)
    if ty == 'N':
        return t
    return '(if %s then 1 else 0)' % t


def tr_e(c, e):
    k = e[0]
    if k == 'int':
        return ('%d' % e[1], 'N')
    if k == 'bool':
        return ('true' if e[1] else 'false', 'bool')
    if k == 'null':
        return ('0', 'N')
    if k == 'var':
        n = e[1]
        if n in c.types:
            return (ident(n), c.types[n])
        if n in c.consts:
            return ('%d' % c.consts[n], 'N')
        if c.trace and n in c.opaque and srcname(n) in c.types:
            return (srcname(n), 'N')
        raise Unsupported('free variable ' + n)
    if k == 'enumconst':
        n = e[1]
        if n in c.consts:
            return ('%d' % c.consts[n], 'N')
        if c.havoc:
            # an enumerator of a library-internal enum (SymAlgo::AES, AsymMech::RSA_PKCS, ...): an uninterpreted constant
            c.extern('enum_' + ident(n), 'N')
            return ('enum_' + ident(n), 'N')
        raise Unsupported('enumerator ' + n)
    if k == 'field' and e[1][0] == 'this':
        n = e[2].split('::')[-1]
        ty = c.extern_types.get(n, 'N')
        c.extern('this_' + ident(n), ty)
        return ('this_' + ident(n), ty)
    if k == 'field' and e[1][0] == 'var':
        # member of a parameter / local structure (pMechanism->mechanism): a value the function consults
        nm = ident(e[1][1] + '_' + e[2].split('::')[-1])
        ty = c.extern_types.get(nm, 'N')
        c.extern(nm, ty)
        return (nm, ty)
    if k == 'field' and c.havoc:
        # a member read through casts / nested members of a parameter (CK_GCM_PARAMS_PTR(pMechanism->pParameter)->ulTagBits):
        # caller memory the function only consults: an uninterpreted value named by its access path
        pn = path_name(c, e)
        if pn is not None:
            ty = c.extern_types.get(pn, 'N')
            c.extern(pn, ty)
            return (pn, ty)
    if k == 'cast':
        t, ty = tr_e(c, e[2])
        if e[1] in BOOL_TYPES and ty == 'N':
            return ('(negb (%s =? 0))' % t, 'bool')
        return (t, ty)
    if k == 'un' and e[1] == '*':
        inner = e[2]
        while inner[0] == 'cast':
            inner = inner[2]
        if inner[0] == 'var' and c.trace and drfname(inner[1]) in c.types:
            return (drfname(inner[1]), 'N')
        if inner[0] == 'var':
            if inner[1] in c.written_derefs:
                raise Unsupported('read of *%s after it was written' % inner[1])
            nm = 'deref_' + ident(inner[1])
            c.extern(nm, 'N')
            return (nm, 'N')
        raise Unsupported('dereference')
    if k == 'un':
        op = e[1]
        if op == '!':
            return ('(negb %s)' % as_bool(c, e[2]), 'bool')
        if op == 'tobool':
            return (as_bool(c, e[2]), 'bool')
        raise Unsupported('unary ' + op)
    if k == 'bin':
        op = e[1]
        if op in ('op==', 'op!='):      # iterator / ByteString comparison: equality of the two (opaque) values
            op = op[2:]
        if op == '&&':
            return ('(%s && %s)' % (as_bool(c, e[2]), as_bool(c, e[3])), 'bool')
        if op == '||':
            return ('(%s || %s)' % (as_bool(c, e[2]), as_bool(c, e[3])), 'bool')
        cmp_ = {'==': '(%s =? %s)', '!=': '(negb (%s =? %s))', '<': '(%s <? %s)', '<=': '(%s <=? %s)',
                '>': '(%s <? %s)', '>=': '(%s <=? %s)'}
        if op in ('<', '<=', '>', '>=', '/', '%', '>>') and mentions([e[2], e[3]], lambda x: x[0] == 'var' and x[1] in c.int32):
            raise Unsupported('signed comparison / division on an int local')
        if op in cmp_:
            a, ta = tr_e(c, e[2])
            b, tb = tr_e(c, e[3])
            if ta == 'bool' and tb == 'bool' and op in ('==', '!='):
                r = '(Bool.eqb %s %s)' % (a, b)
                return (r if op == '==' else '(negb %s)' % r, 'bool')
            a = a if ta == 'N' else '(if %s then 1 else 0)' % a
            b = b if tb == 'N' else '(if %s then 1 else 0)' % b
            if op in ('>', '>='):
                a, b = b, a
            return (cmp_[op] % (a, b), 'bool')
        if op == '&':
            return ('(N.land %s %s)' % (as_N(c, e[2]), as_N(c, e[3])), 'N')
        if op == '|':
            return ('(N.lor %s %s)' % (as_N(c, e[2]), as_N(c, e[3])), 'N')
        if op == '+':
            return ('((%s + %s) mod 18446744073709551616)' % (as_N(c, e[2]), as_N(c, e[3])), 'N')
        if op == '%' and e[3][0] == 'int' and e[3][1] > 0:
            return ('(N.modulo %s %d)' % (as_N(c, e[2]), e[3][1]), 'N')
        if c.havoc and op == '*':
            return ('((%s * %s) mod 18446744073709551616)' % (as_N(c, e[2]), as_N(c, e[3])), 'N')
        if c.havoc and op in ('/', '%'):
            # unsigned 64-bit operands; a zero divisor is undefined behaviour in the C++ and N.div / N.modulo's total
            # value here: theorems about such a function state the divisor's non-zeroness
            return ('(%s %s %s)' % ('N.div' if op == '/' else 'N.modulo', as_N(c, e[2]), as_N(c, e[3])), 'N')
        if op == '-':
            return ('((%s + 18446744073709551616 - %s) mod 18446744073709551616)' % (as_N(c, e[2]), as_N(c, e[3])), 'N')
        raise Unsupported('binary ' + op)
    if k == 'cond':
        a, ta = tr_e(c, e[2])
        b, tb = tr_e(c, e[3])
        if ta != tb:
            a, b = as_N(c, e[2]), as_N(c, e[3])
            ta = 'N'
        return ('(if %s then %s else %s)' % (as_bool(c, e[1]), a, b), ta)
    if k == 'call' and c.havoc and e[1][0] == 'field' and e[1][1][0] == 'var' and e[1][1][1] in c.opaque and e[1][2].split('::')[-1] == 'size' and not e[2] \
            and szname(e[1][1][1]) in c.types:
        return (szname(e[1][1][1]), 'N')
    if k == 'call' and c.trace and traced_kind(e) is not None and not getattr(c, 'in_traced', False):
        raise Unsupported('call on a stateful collaborator in expression position: ' + repr(e[1])[:60])
    if k == 'call':
        name = callee_name(e[1])
        if c.havoc:
            # a default argument the caller did not write: a constant of the callee, which is an uninterpreted function of the
            # explicit arguments anyway
            e = (e[0], e[1], [a for a in e[2] if a != ('opaque', 'defaultarg')])
        if c.trace:
            # class-typed locals go in as their content pseudo-variable; a local handed over by non-const reference is an
            # output (its new content is a function of the other arguments, see `srchavoc`), not an input
            args = [(srcname(a[1]), 'N') if (a[0] == 'var' and a[1] in c.opaque and srcname(a[1]) in c.types) else
                    (('0', 'N') if (a[0] in ('var', 'refarg') and a[1] in c.opaque) else tr_e(c, a)) for a in e[2]]
        else:
            args = [('0', 'N') if (c.havoc and a[0] == 'var' and a[1] in c.opaque) else tr_e(c, a) for a in e[2]]
        rty = c.extern_types.get(name, 'N')
        if c.havoc and any(a[0] in ('refarg', 'var') and a[1] in c.opaque and not (c.trace and (a[0] == 'refarg' or srcname(a[1]) in c.types)) for a in e[2]):
            # a class-typed local goes in (by value or by reference) and is rendered as 0: the result may depend on its
            # content, so this call site gets an uninterpreted function of its own (two calls are not assumed equal)
            site = c.call_sites.setdefault(repr(e), len(c.call_sites) + 1)
            name = '%s_at%d' % (name, site)
        if not args:
            c.extern(name, rty)
            return (name, rty)
        c.extern(name, ('fun', [t for (_, t) in args], rty))
        return ('(%s %s)' % (name, ' '.join(a for (a, _) in args)), rty)
    if k == 'refarg':
        if c.havoc and e[1] in c.opaque:
            return ('0', 'N')        # a class-typed local nobody reads: the callee may change it, nothing translated depends on it
        raise Unsupported('variable %s passed by non-const reference' % e[1])
    raise Unsupported('expression ' + str(k) + ' ' + repr(e)[:60])


def is_log(e):
    return e[0] == 'call' and e[1] == ('var', 'softHSMLog')


# helper functions of SoftHSM.cpp that only compute from their value arguments and write their results through reference
# parameters (no other state): a call `rv = f(a, b, out1, out2)` is translated by HAVOC - rv and every variable passed by
# non-const reference are re-bound to fresh, universally quantified parameters.  Sound for theorems of the form
# "the body is reached only if ...": whatever the helper returned, the guards that follow were applied to those values.
HAVOC_CALLEES = ('extractObjectInformation',)
HAVOC_METHODS = ('getTokenFlags',)      # bool f(T& out): the out-parameter becomes a fresh value, the result an uninterpreted one


def havoc_call(c, s):
    """[(variable, fresh parameter)] when the statement is `x = f(...)`, `T x = f(...)` or `f(...)` with f whitelisted"""
    target = None
    if s[0] == 'expr':
        e = s[1]
        if e[0] == 'bin' and e[1] == '=' and e[2][0] == 'var':
            target, call = e[2][1], e[3]
        else:
            call = e
    else:
        target, call = s[1], s[3]
    if call is None or call[0] != 'call' or call[1][0] != 'var' or call[1][1] not in HAVOC_CALLEES:
        return None
    c.fresh += 1
    n = c.fresh
    out = []

    def fresh_name(v):
        if not c.trace:
            return 'hv%d_%s' % (n, ident(v))
        # trace mode: named after the callee, so that the name does not change when statements are added before this one
        base = '%s_gives_%s' % (ident(call[1][1]), ident(v))
        c.sets_names[base] = c.sets_names.get(base, 0) + 1
        return base if c.sets_names[base] == 1 else '%s_%d' % (base, c.sets_names[base])
    for a in call[2]:
        if a[0] == 'refarg':
            v = a[1]
            ty = c.types.get(v, 'N')
            p = fresh_name(v)
            c.extern(p, ty)
            out.append((ident(v), p))
    if target is not None:
        ty = c.types.get(target, 'N')
        if s[0] == 'decl':
            ty = 'bool' if s[2] in BOOL_TYPES else 'N'
            c.types[target] = ty
        p = fresh_name(target)
        c.extern(p, ty)
        out.append((ident(target), p))
    return out


OPAQUE_TYPES = ('ByteString', 'std::string', 'std::basic_string<char>')


CONST_METHODS = ('size', 'byte_str', 'const_byte_str', 'hex_str', 'long_val', 'bits', 'c_str', 'length', 'empty')


def szname(v):
    return 'szv_' + ident(v)


def srcname(v):
    return 'src_' + ident(v)


def drfname(v):
    return 'drf_' + ident(v)


T64 = 18446744073709551616
TRACE_TAGS = {'getObject': T64 - 40, 'hm_destroyObject': T64 - 41, 'destroyObject': T64 - 42, 'startTransaction': T64 - 43,
              'commitTransaction': T64 - 44, 'abortTransaction': T64 - 45, 'CreateObject': T64 - 46}


def out_tag(c, p):
    # `*p = v` for the i-th parameter p: an effect tagged 2^64-96-i
    return T64 - 96 - c.param_order.index(p)


def strip_casts(e):
    while e[0] == 'cast' or (e[0] == 'un' and e[1] == 'tobool'):
        e = e[2]
    return e


def traced_kind(e):
    """'getObject' | 'hm_destroyObject' | 'destroyObject' | '...Transaction' | 'setAttribute' | 'CreateObject' | None"""
    if e[0] != 'call' or e[1][0] != 'field':
        return None
    e = (e[0], e[1], [a for a in e[2] if a != ('opaque', 'defaultarg')])
    m = e[1][2].split('::')[-1]
    base = e[1][1]
    hm = base[0] == 'field' and base[1][0] == 'this' and base[2].split('::')[-1] == 'handleManager'
    if hm and m == 'getObject' and len(e[2]) == 1:
        return 'getObject'
    if hm and m == 'destroyObject' and len(e[2]) == 1:
        return 'hm_destroyObject'
    if base[0] == 'var' and m in ('destroyObject', 'startTransaction', 'commitTransaction', 'abortTransaction') and not e[2]:
        return m
    if base[0] == 'var' and m == 'setAttribute' and len(e[2]) == 2:
        return 'setAttribute'
    if base[0] == 'this' and m == 'CreateObject':
        return 'CreateObject'
    return None


def traced(c, e):
    """(event term, result term, result type) of a call on a stateful collaborator (trace mode)"""
    kind = traced_kind(e)
    c.in_traced = True
    try:
        if kind == 'setAttribute':
            a = as_N(c, e[2][0])
            v = e[2][1]
            while v[0] in ('ctor', 'cast') and len(v[2] if v[0] == 'ctor' else [v[2]]) == 1:
                v = v[2][0] if v[0] == 'ctor' else v[2]
            if v[0] == 'var' and v[1] in c.osattrs:
                val = c.osattrs[v[1]]
            elif v[0] == 'bool':
                val = '1' if v[1] else '0'
            elif v[0] == 'var' and v[1] in c.opaque:
                if srcname(v[1]) not in c.types:
                    raise Unsupported('content of %s is not tracked' % v[1])
                val = srcname(v[1])
            else:
                val = as_N(c, v)
            ev = '(%s, %s)' % (a, val)
        elif kind in ('getObject', 'hm_destroyObject'):
            ev = '(%d, %s)' % (TRACE_TAGS[kind], as_N(c, e[2][0]))
        elif kind == 'CreateObject':
            ev = '(%d, %s)' % (TRACE_TAGS[kind], as_N(c, e[2][-1]))
        else:
            ev = '(%d, %s)' % (TRACE_TAGS[kind], ident(e[1][1][1]))
        if kind in ('getObject', 'CreateObject'):
            res, ty = tr_e(c, e)          # an uninterpreted function of the arguments
        else:
            # what a state-changing call answers is not a function of its arguments: a fresh value per call site
            c.fresh += 1
            res, ty = 'hv%d_%s_ok' % (c.fresh, kind), 'bool'
            c.extern(res, 'bool')
    finally:
        c.in_traced = False
    return ev, res, ty


def passed_ptrs(c, x):
    """tracked pointer parameters handed on to a callee somewhere in the IR tree x (the callee may write through them)"""
    out = set()

    def f(n):
        if n[0] == 'call':
            for a in n[2]:
                a = strip_casts(a) if isinstance(a, tuple) else a
                if isinstance(a, tuple) and a[0] == 'var' and a[1] in c.ptr_params:
                    out.add(a[1])
    walk_ir(x, f)
    return out


def fresh_size(c, v, declare=True):
    c.fresh += 1
    nm = 'hv%d_%s_size' % (c.fresh, ident(v))
    if declare:
        c.extern(nm, 'N')
    return nm


def uses_name(term, nm):
    """does the name occur other than as a binder (`let nm :=`, `(nm : T)`)?  (an over-approximation of `occurs free`)"""
    t = re.sub(r'let ' + re.escape(nm) + r' :=', 'let _ :=', term)
    t = re.sub(r'\(' + re.escape(nm) + r' : ', '(_ : ', t)
    return re.search(r'(?<![A-Za-z0-9_])' + re.escape(nm) + r'(?![A-Za-z0-9_])', t) is not None


def mutated_opaque(c, x):
    """class-typed locals whose size() may change in the IR tree x: handed over by non-const reference, address taken,
    assigned, or a non-const method called on them (memcpy / memset into them change bytes, not the size)"""
    out = set()

    def f(n):
        k = n[0]
        if k == 'refarg' and isinstance(n[1], str) and n[1] in c.opaque:
            out.add(n[1])
        elif k == 'un' and len(n) == 3 and n[1] == '&' and isinstance(n[2], tuple) and n[2][0] == 'var' and n[2][1] in c.opaque:
            out.add(n[2][1])
        elif k == 'call' and n[1][0] == 'field' and n[1][1][0] == 'var' and n[1][1][1] in c.opaque and n[1][2].split('::')[-1] not in CONST_METHODS:
            out.add(n[1][1][1])
        elif k == 'bin' and len(n) == 4 and isinstance(n[1], str) and n[1].endswith('=') and n[1] not in ('==', '!=', '<=', '>=', 'op==', 'op!='):
            t = n[2]
            if t[0] == 'var' and t[1] in c.opaque:
                out.add(t[1])
    walk_ir(x, f)
    return out


def size_havoc(c, vs, body):
    """wrap the term-producing thunk `body` in re-bindings of the size pseudo-variables of vs to fresh values"""
    binds = [(szname(v), fresh_size(c, v, declare=False)) for v in sorted(vs) if szname(v) in c.types]
    inner = body()
    binds = [b for b in binds if uses_name(inner, b[0])]          # a size nobody reads afterwards needs no name
    for (_, nm) in binds:
        c.extern(nm, 'N')
    return ''.join('(let %s := %s in ' % b for b in binds) + inner + ')' * len(binds)


TRACE_OPAQUE = False     # trace mode: key / parameter objects held by value are class-typed locals too


def is_opaque_type(ty):
    ty = ty.replace('const ', '')
    if TRACE_OPAQUE and re.fullmatch(r'(Symmetric|AES|DES|RSA|DSA|DH|EC|ED|GOST)\w*(Key|Parameters)|SymmetricKey|AsymmetricParameters', ty):
        return True
    return ty in OPAQUE_TYPES or ty.endswith('_PARAMS') or bool(re.search(r'\[\d*\]$', ty))


def mentions(e, pred):
    if isinstance(e, tuple):
        if pred(e):
            return True
        return any(mentions(x, pred) for x in e[1:])
    if isinstance(e, list):
        return any(mentions(x, pred) for x in e)
    return False


def is_unread_setter(c, e):
    """X->setFoo(...) where the function never calls X->getFoo / isFoo: a state change nothing in this function observes"""
    if e[0] == 'call' and e[1][0] == 'field' and (e[1][1][0] == 'var' or (e[1][1][0] == 'field' and e[1][1][1][0] == 'this')):
        m = e[1][2].split('::')[-1]
        if m.startswith('set') and len(m) > 3:
            foo = m[3:]
            # no getter of the same property textually after the (last) setter: statement order is program order (no loops)
            tail = c.body_text[c.body_text.rindex(m):]
            return ('get' + foo) not in tail and ('is' + foo) not in tail and not mentions(e[2], lambda x: x[0] == 'refarg')
    return False


def is_cleanup(e):
    """recycle / delete calls on error paths: no effect on anything the translated code reads"""
    if e[0] == 'call':
        f = e[1]
        if f[0] == 'field' and f[2].split('::')[-1].startswith('recycle'):
            return True
        if f[0] == 'field' and f[2].split('::')[-1] in ('destroyObject', 'abortTransaction') and f[1][0] == 'var' and not e[2]:
            return True      # undoing a half-made object on an error path: its result is ignored and nothing reads the object again
        if f[0] == 'var' and f[1] == 'delete':
            return True
    return False


def writes_only_opaque(c, e):
    """a statement whose only effect is on a class-typed local that translated code never reads: iv.resize(n),
    memcpy(&iv[0], src, n), aad = ByteString(...)"""
    if e[0] == 'call':
        f = e[1]
        if f[0] == 'field' and f[1][0] == 'var' and f[1][1] in c.opaque:
            return not mentions(e[2], lambda x: x[0] == 'refarg')
        if f[0] == 'var' and f[1] in ('memcpy', 'memset') and e[2]:
            return mentions(e[2][0], lambda x: x[0] == 'var' and x[1] in c.opaque) and not mentions(e[2][0], lambda x: x[0] == 'var' and x[1] in c.types)
    if e[0] == 'bin' and e[1] in ('=', 'op=') and e[2][0] == 'field' and e[2][1][0] == 'var' and e[2][1][1] in c.opaque:
        return not mentions(e[3], lambda x: x[0] == 'refarg')
    if e[0] == 'bin' and e[1] in ('=', 'op=', '+=', 'op+=') and e[2][0] == 'var' and e[2][1] in c.opaque:
        return not mentions(e[3], lambda x: x[0] == 'refarg')
    return False


def addr_out_call(c, s):
    """`rv = f(a, &x)`, `T rv = f(a, &x)` or `f(a, &x)` with x a scalar local: f may write x through the pointer.  The call is
    translated with 0 in the place of &x under a name of its own (per call site), and x is a fresh universally quantified
    value afterwards.  -> (target or None, call with the &x arguments replaced, [x ...]) or None"""
    target = None
    if s[0] == 'expr':
        e = s[1]
        if e[0] == 'bin' and e[1] == '=' and e[2][0] == 'var' and e[2][1] in c.types:
            target, call = e[2][1], e[3]
        else:
            call = e
    else:
        if s[3] is None or is_opaque_type(s[2]):
            return None
        target, call = s[1], s[3]
    neg = False
    while c.trace and call is not None and call[0] == 'un' and call[1] in ('!', 'tobool'):
        neg = neg != (call[1] == '!')
        call = call[2]
    if call is None or call[0] != 'call':
        return None
    if c.trace and traced_kind(call) is not None:
        return None
    outs = [a[2][1] for a in call[2] if a[0] == 'un' and a[1] == '&' and a[2][0] == 'var' and a[2][1] in c.types]
    if not outs or any(a[0] == 'refarg' and a[1] not in c.opaque for a in call[2]):
        return None
    if s[0] == 'decl':
        c.types[target] = 'bool' if s[2] in BOOL_TYPES else 'N'
    c.fresh += 1
    site = ('var', '%s_at%d' % (callee_name(call[1]), c.fresh))
    isaddr = lambda a: a[0] == 'un' and a[1] == '&' and a[2][0] == 'var' and (a[2][1] in c.types or (c.trace and a[2][1] in c.opaque))
    newcall = ('call', site, [('int', 0) if isaddr(a) else a for a in call[2]])
    if neg:
        newcall = ('un', '!', newcall)
    return (target, newcall, outs)


def havoc_scalar(c, s):
    """`x = <expression the fragment cannot express>` for a scalar local x: x becomes a fresh, universally quantified
    value.  Not for right-hand sides that can write other locals (reference or address-of arguments)."""
    if s[0] == 'expr':
        e = s[1]
        if not (e[0] == 'bin' and e[1] == '=' and e[2][0] == 'var' and e[2][1] in c.types):
            return None
        target, rhs, ty = e[2][1], e[3], c.types[e[2][1]]
    else:
        if s[3] is None or is_opaque_type(s[2]):
            return None
        target, rhs = s[1], s[3]
        ty = 'bool' if s[2] in BOOL_TYPES else 'N'
    if rhs[0] == 'call' and rhs[1][0] == 'var' and rhs[1][1] in HAVOC_CALLEES:
        return None
    saved_ext = list(c.externs)
    try:
        tr_e(c, rhs)
        return None                  # translatable: the ordinary path handles it
    except Unsupported:
        c.externs = saved_ext
    if mentions(rhs, lambda x: x[0] == 'refarg' or (x[0] == 'un' and x[1] == '&' and not (x[2][0] == 'var' and x[2][1] in c.opaque))):
        return None
    c.fresh += 1
    p = 'hv%d_%s' % (c.fresh, ident(target))
    c.extern(p, ty)
    c.types[target] = ty
    return (ident(target), p)


def havoc_method_in_cond(c, cond):
    """`!obj->getTokenFlags(flags)` (possibly negated): replace the call by a fresh boolean and re-bind the out-parameter"""
    neg = False
    e = cond
    if e[0] == 'un' and e[1] == '!':
        neg, e = True, e[2]
    if e[0] == 'un' and e[1] == 'tobool':
        e = e[2]
    if not (e[0] == 'call' and e[1][0] == 'field' and e[1][2].split('::')[-1] in HAVOC_METHODS):
        return None
    refs = [a[1] for a in e[2] if a[0] == 'refarg']
    if not refs or len(refs) != len(e[2]):
        return None
    c.fresh += 1
    n = c.fresh
    ok = 'hv%d_%s_ok' % (n, ident(e[1][2].split('::')[-1]))
    c.extern(ok, 'bool')
    c.types[ok] = 'bool'
    binds = []
    for v in refs:
        p = 'hv%d_%s' % (n, ident(v))
        ty = c.types.get(v, 'N')
        c.extern(p, ty)
        binds.append((ident(v), p))
    newcond = ('var', ok)
    if neg:
        newcond = ('un', '!', newcond)
    return newcond, binds


def always_exits(ss):
    """does this statement list always leave by return (never fall through / break)?"""
    for s in ss:
        k = s[0]
        if k == 'ret':
            return True
        if k == 'if' and always_exits(s[2]) and always_exits(s[3]):
            return True
        if k == 'block' and always_exits(s[1]):
            return True
        if k == 'break':
            return False
    return False


def check_shadow(c, kn, branches):
    """lifted mode: the call of a continuation names the variables it needs; a branch must not declare a local of one of those
    names (the call would pass the inner one)"""
    need = {v for (v, t) in c.kfv[kn]}
    bad = []

    def f(n):
        if n[0] == 'decl' and isinstance(n[1], str):
            for nm in (ident(n[1]), szname(n[1]), srcname(n[1])):
                if nm in need:
                    bad.append(nm)
    walk_ir(branches, f)
    if bad:
        raise Unsupported('a branch declares %s, which the code after the construct reads' % bad[0])


def pseudo_assigned(c, x):
    """content / pointee pseudo-variables that the IR tree x may re-bind (trace mode)"""
    out = {srcname(v) for v in mutated_opaque(c, x)} | {drfname(p) for p in passed_ptrs(c, x)}

    def f(n):
        if n[0] == 'bin' and len(n) == 4 and n[1] == '=' and isinstance(n[2], tuple) and n[2][0] == 'un' and n[2][1] == '*' and n[2][2][0] == 'var' and n[2][2][1] in c.ptr_params:
            out.add(drfname(n[2][2][1]))
    walk_ir(x, f)
    return out


def trace_havoc(c, s, body):
    """after a statement whose expression s[2] may have changed the class-typed locals s[1] and written through the pointer
    parameters s[3]: the content of a local that the statement's top-level call took by non-const reference is that callee's
    output, an uninterpreted function <callee>_out_<local> of the call's other arguments; any other changed content and every
    pointee is a fresh universally quantified value"""
    names, expr, ptrs = s[1], (s[2] if len(s) > 2 else None), (s[3] if len(s) > 3 else [])
    top = expr
    while top is not None and isinstance(top, tuple) and (top[0] == 'cast' or (top[0] == 'un' and top[1] in ('!', 'tobool'))):
        top = top[2]
    binds = []
    asg = top
    if top is not None and top[0] == 'bin' and top[1] == '=' and top[2][0] == 'var' and top[2][1] in c.types:
        top = strip_casts(top[3])          # rv = f(.., out): the call is what matters for `out`
    for v in names:
        if srcname(v) not in c.types:
            continue
        term = None
        if top is not None and top[0] == 'call' and traced_kind(top) is None and any(a == ('refarg', v) for a in top[2]):
            saved_ext = list(c.externs)
            try:
                ins = [tr_e(c, a) for a in top[2] if not (a[0] == 'refarg' and a[1] in c.opaque)]
                nm = '%s_out_%s' % (callee_name(top[1]), ident(v))
                if ins:
                    c.extern(nm, ('fun', [t for (_, t) in ins], 'N'))
                    term = '(%s %s)' % (nm, ' '.join(a for (a, _) in ins))
                else:
                    c.extern(nm, 'N')
                    term = nm
            except Unsupported:
                c.externs = saved_ext
        elif top is not None and top[0] == 'bin' and top[1] in ('=', 'op=') and top[2] == ('var', v):
            saved_ext = list(c.externs)
            try:
                term = as_N(c, top[3])           # x = <call returning the class type>: the call's (uninterpreted) value
            except Unsupported:
                c.externs = saved_ext
        if term is None:
            c.fresh += 1
            term = 'hv%d_%s_src' % (c.fresh, ident(v))
            c.extern(term, 'N')
        binds.append((srcname(v), term))
    for p_ in ptrs:
        if drfname(p_) in c.types:
            # what the callee left in *p: named after the callee (a second call of the same callee gets a number)
            term = None
            ctop = top
            if ctop is not None and ctop[0] == 'bin' and ctop[1] == '=':
                ctop = strip_casts(ctop[3])
            if ctop is not None and ctop[0] == 'call':
                try:
                    base = '%s_sets_%s' % (callee_name(ctop[1]), ident(p_))
                    c.sets_names[base] = c.sets_names.get(base, 0) + 1
                    term = base if c.sets_names[base] == 1 else '%s_%d' % (base, c.sets_names[base])
                except Unsupported:
                    term = None
            if term is None:
                c.fresh += 1
                term = 'hv%d_deref_%s' % (c.fresh, ident(p_))
            c.extern(term, 'N')
            binds.append((drfname(p_), term))
    inner = body()
    return ''.join('(let %s := %s in ' % b for b in binds) + inner + ')' * len(binds)


def trace_stmt(c, s, rest, k_fall, k_break):
    """trace mode: statements that call a stateful collaborator, or write through a tracked pointer parameter"""
    k = s[0]
    go = lambda: tr_s(c, rest, k_fall, k_break)
    if k == 'if':
        cond, neg = s[1], 0
        while cond[0] == 'un' and cond[1] in ('!', 'tobool') or cond[0] == 'cast':
            neg += 1 if (cond[0] == 'un' and cond[1] == '!') else 0
            cond = cond[2]
        if traced_kind(cond) is not None:
            c.fresh += 1
            cn = 'cnd%d' % c.fresh
            nc = ('var', cn)
            if neg % 2:
                nc = ('un', '!', nc)
            return tr_s(c, [('decl', cn, 'bool', cond), ('if', nc, s[2], s[3])] + list(rest), k_fall, k_break)
        return None
    if k == 'decl':
        if s[3] is None or is_opaque_type(s[2]):
            return None
        call = strip_casts(s[3])
        if traced_kind(call) is None:
            return None
        ev, res, ty = traced(c, call)
        want = 'bool' if s[2] in BOOL_TYPES else 'N'
        c.assigned_locals.add(s[1])
        c.types[s[1]] = want
        if ty != want:
            res = ('(negb (%s =? 0))' % res) if want == 'bool' else ('(if %s then 1 else 0)' % res)
        return '(let acc := %s :: acc in (let %s := %s in %s))' % (ev, ident(s[1]), res, go())
    e = s[1]
    if traced_kind(e) is not None:
        ev, _, _ = traced(c, e)
        return '(let acc := %s :: acc in %s)' % (ev, go())
    if e[0] == 'bin' and e[1] == '=' and e[2][0] == 'var' and e[2][1] in c.types:
        x = e[2][1]
        rhs = strip_casts(e[3])
        if rhs[0] == 'bin' and rhs[1] == '&&' and strip_casts(rhs[2]) == ('var', x) and traced_kind(strip_casts(rhs[3])) is not None:
            # x = x && obj->f(..): the call is made only when x is still true
            return tr_s(c, [('if', ('var', x), [('expr', ('bin', '=', ('var', x), strip_casts(rhs[3])))], [])] + list(rest), k_fall, k_break)
        if traced_kind(rhs) is not None:
            ev, res, ty = traced(c, rhs)
            want = c.types[x]
            if ty != want:
                res = ('(negb (%s =? 0))' % res) if want == 'bool' else ('(if %s then 1 else 0)' % res)
            return '(let acc := %s :: acc in (let %s := %s in %s))' % (ev, ident(x), res, go())
    if e[0] == 'bin' and e[1] == '=' and e[2][0] == 'un' and e[2][1] == '*' and e[2][2][0] == 'var' and e[2][2][1] in c.ptr_params:
        p_ = e[2][2][1]
        v = as_N(c, e[3])
        return '(let %s := %s in (let acc := (%d, %s) :: acc in %s))' % (drfname(p_), v, out_tag(c, p_), drfname(p_), go())
    if e[0] == 'call' and traced_kind(e) is None and any(a[0] == 'refarg' and a[1] in c.opaque for a in e[2]) and rest and rest[0][0] == 'sizehavoc':
        # f(.., out) with the result discarded: what it does to `out` is accounted for by the pseudo-statement that follows
        tr_e(c, e)
        return go()
    return None


def tr_s_inner(c, ss, k_fall, k_break):
    """term for executing ss; k_fall: term when control falls off the end; k_break: on `break`"""
    if not ss:
        if k_fall is None:
            raise Unsupported('control reaches the end of a non-void function')
        return k_fall
    s, rest = ss[0], ss[1:]
    k = s[0]
    if c.havoc and k in ('if', 'expr', 'decl', 'switch') and not getattr(c, 'no_split', False):
        # a call inside this statement's own expression may change a class-typed local (non-const reference argument):
        # evaluate the expression first, then re-bind the local's size, then go on
        if k == 'if':
            m = mutated_opaque(c, [s[1]])
            pp = passed_ptrs(c, [s[1]]) if c.trace else set()
            if m or pp or (c.trace and mentions([s[1]], lambda x: x[0] == 'un' and len(x) == 3 and x[1] == '&' and isinstance(x[2], tuple) and x[2][0] == 'var' and x[2][1] in c.types)):
                c.fresh += 1
                cn = 'cnd%d' % c.fresh
                return tr_s(c, [('decl', cn, 'bool', s[1]), ('sizehavoc', sorted(m), s[1], sorted(pp)), ('if', ('var', cn), s[2], s[3])] + list(rest), k_fall, k_break)
        elif k == 'switch':
            if mutated_opaque(c, [s[1]]) or (c.trace and passed_ptrs(c, [s[1]])):
                raise Unsupported('switch on an expression that changes a class-typed local')
        elif k == 'expr' and not writes_only_opaque(c, s[1]):
            m = mutated_opaque(c, [s[1]])
            pp = passed_ptrs(c, [s[1]]) if c.trace else set()
            if (m or pp) and not (rest and rest[0][0] == 'sizehavoc'):
                return tr_s(c, [s, ('sizehavoc', sorted(m), s[1], sorted(pp))] + list(rest), k_fall, k_break)
        elif k == 'decl' and not is_opaque_type(s[2]) and s[3] is not None:
            m = mutated_opaque(c, [s[3]])
            pp = passed_ptrs(c, [s[3]]) if c.trace else set()
            if (m or pp) and not (rest and rest[0][0] == 'sizehavoc'):
                return tr_s(c, [s, ('sizehavoc', sorted(m), s[3], sorted(pp))] + list(rest), k_fall, k_break)
    if c.trace and k in ('if', 'expr', 'decl'):
        r = trace_stmt(c, s, rest, k_fall, k_break)
        if r is not None:
            return r
    if k == 'ret':
        if s[1] is None:
            raise Unsupported('void return')
        return c.ret(as_bool(c, s[1]) if c.ret_bool else as_N(c, s[1]))
    if k == 'break':
        if k_break is None:
            raise Unsupported('break outside switch')
        return k_break
    if k == 'block':
        return tr_s(c, list(s[1]) + list(rest), k_fall, k_break)
    if k == 'decl' and c.eff and s[2] in ('OSAttribute', 'const OSAttribute') and s[3] is not None and s[3][0] == 'ctor' and len(s[3][2]) == 1 and s[3][2][0][0] == 'bool':
        c.osattrs[s[1]] = '1' if s[3][2][0][1] else '0'
        return tr_s(c, rest, k_fall, k_break)
    if k == 'expr' and c.eff:
        e = s[1]
        eff = None
        if e[0] == 'call' and e[1][0] == 'field' and e[1][2].split('::')[-1] == 'setAttribute' and len(e[2]) == 2:
            a = as_N(c, e[2][0])
            v = e[2][1]
            while v[0] in ('ctor', 'cast') and len(v[2] if v[0] == 'ctor' else [v[2]]) == 1:
                v = v[2][0] if v[0] == 'ctor' else v[2]
            if v[0] == 'var' and v[1] in c.osattrs:
                eff = '(%s, %s)' % (a, c.osattrs[v[1]])
            elif v[0] == 'bool':
                eff = '(%s, %s)' % (a, '1' if v[1] else '0')
            else:
                eff = '(%s, %s)' % (a, as_N(c, v))
        elif e[0] == 'bin' and e[1] == '=' and e[2][0] == 'un' and e[2][1] == '*' and e[2][2][0] == 'var':
            # *pulValueLen = X : an effect on caller memory, tagged with the attribute number 2^64-2
            eff = '(18446744073709551614, %s)' % as_N(c, e[3])
        elif c.havoc and e[0] == 'call' and e[1][0] == 'var' and e[1][1] == 'memcpy' and len(e[2]) == 3 and e[2][0][0] == 'var' and e[2][0][1] in c.params:
            # memcpy(pOut, <bytes>, n) into caller memory: an effect tagged 2^64-4 carrying the number of bytes written
            eff = '(18446744073709551612, %s)' % as_N(c, e[2][2])
        elif e[0] == 'call' and e[1][0] == 'field' and e[1][2].split('::')[-1] == 'resetOp' and not e[2]:
            # session->resetOp(): the active operation ends; an effect tagged 2^64-3
            eff = '(18446744073709551613, 0)'
        if eff is not None:
            return '(let acc := %s :: acc in %s)' % (eff, tr_s(c, rest, k_fall, k_break))
    if c.havoc and k == 'sizehavoc':
        if c.trace:
            return trace_havoc(c, s, lambda: size_havoc(c, s[1], lambda: tr_s(c, rest, k_fall, k_break)))
        return size_havoc(c, s[1], lambda: tr_s(c, rest, k_fall, k_break))
    if c.havoc and k == 'decl' and is_opaque_type(s[2]):
        c.opaque.add(s[1])
        c.types.pop(s[1], None)
        if s[2].replace('const ', '') == 'ByteString':
            # its size() is a pseudo-variable szv_<name>, re-bound whenever the local may change
            init = s[3]
            sz = None
            if init is None or (init[0] == 'ctor' and not init[2]):
                sz = '0'
            elif init[0] == 'ctor' and len(init[2]) == 2:
                try:
                    sz = as_N(c, init[2][1])            # ByteString(ptr, len)
                except Unsupported:
                    sz = None
            lazy = sz is None
            if lazy:
                sz = fresh_size(c, s[1], declare=False)
            c.types[szname(s[1])] = 'N'
            extra = [('sizehavoc', sorted(mutated_opaque(c, [init]) - {s[1]}), init, [])] if init is not None and mutated_opaque(c, [init]) - {s[1]} else []
            srcv = None
            if c.trace:
                # its content is the pseudo-variable src_<name>: 0 when empty, the (uninterpreted) value of the initialiser
                srcv = '0' if sz == '0' and (init is None or not init[2]) else None
                if srcv is None:
                    saved_ext = list(c.externs)
                    try:
                        srcv = as_N(c, init if init[0] != 'ctor' or len(init[2]) != 1 else init[2][0])
                    except Unsupported:
                        c.externs = saved_ext
                        c.fresh += 1
                        srcv = 'hv%d_%s_src' % (c.fresh, ident(s[1]))
                        c.extern(srcv, 'N')
                c.types[srcname(s[1])] = 'N'
            inner = tr_s(c, extra + list(rest), k_fall, k_break)
            if srcv is not None:
                inner = '(let %s := %s in %s)' % (srcname(s[1]), srcv, inner)
            if not uses_name(inner, szname(s[1])):
                return inner
            if lazy:
                c.extern(sz, 'N')
            return '(let %s := %s in %s)' % (szname(s[1]), sz, inner)
        return tr_s(c, rest, k_fall, k_break)
    if c.havoc and k == 'expr' and writes_only_opaque(c, s[1]):
        e = s[1]
        if e[0] == 'call' and e[1][0] == 'field' and e[1][1][0] == 'var' and e[1][2].split('::')[-1] == 'resize' and len(e[2]) == 1 and szname(e[1][1][1]) in c.types:
            try:
                return '(let %s := %s in %s)' % (szname(e[1][1][1]), as_N(c, e[2][0]), tr_s(c, rest, k_fall, k_break))
            except Unsupported:
                pass
        if c.trace:
            return trace_havoc(c, ('sizehavoc', sorted(mutated_opaque(c, [e])), e, []), lambda: size_havoc(c, mutated_opaque(c, [e]), lambda: tr_s(c, rest, k_fall, k_break)))
        return size_havoc(c, mutated_opaque(c, [e]), lambda: tr_s(c, rest, k_fall, k_break))
    if c.havoc and k == 'expr' and is_cleanup(s[1]) and not (c.trace and traced_kind(s[1]) is not None):
        return tr_s(c, rest, k_fall, k_break)
    if c.skip_setters and k == 'expr' and is_unread_setter(c, s[1]):
        return tr_s(c, rest, k_fall, k_break)
    if c.havoc and k == 'expr' and s[1][0] == 'bin' and s[1][1] == '=' and s[1][2][0] == 'un' and s[1][2][1] == '*' and s[1][2][2][0] == 'var' and not c.eff:
        # *pOut = value: a write to caller memory through an out-pointer; reading it back later ends the prefix
        as_N(c, s[1][3])
        c.written_derefs.add(s[1][2][2][1])
        return tr_s(c, rest, k_fall, k_break)
    if c.havoc and k in ('expr', 'decl'):
        ao = addr_out_call(c, s)
        if ao is not None:
            (target, call, outs) = ao
            binds = []
            if target is not None:
                v, ty = tr_e(c, call)
                if target not in c.types:
                    c.types[target] = ty
                binds.append((ident(target), v if ty == c.types[target] else (as_bool(c, call) if c.types[target] == 'bool' else as_N(c, call))))
            else:
                tr_e(c, call)          # the result is ignored; the call must still be expressible
            c.fresh += 1
            for x in outs:
                pn = 'hv%d_%s' % (c.fresh, ident(x))
                c.extern(pn, c.types[x])
                binds.append((ident(x), pn))
            inner = tr_s(c, rest, k_fall, k_break)
            return ''.join('(let %s := %s in ' % b for b in binds) + inner + ')' * len(binds)
        hs = havoc_scalar(c, s)
        if hs is not None:
            return '(let %s := %s in %s)' % (hs[0], hs[1], tr_s(c, rest, k_fall, k_break))
    if k in ('expr', 'decl'):
        hv = havoc_call(c, s)
        if hv is not None:
            binds = ''.join('(let %s := %s in ' % (v, t) for (v, t) in hv)
            return binds + tr_s(c, rest, k_fall, k_break) + ')' * len(hv)
    if k == 'expr':
        e = s[1]
        if is_log(e):
            return tr_s(c, rest, k_fall, k_break)
        if e[0] == 'bin' and e[1] in ('|=', '&=', '+=') and e[2][0] == 'var' and c.types.get(e[2][1]) == 'N':
            x = ident(e[2][1])
            rhs = as_N(c, e[3])
            val = {'|=': '(N.lor %s %s)', '&=': '(N.land %s %s)', '+=': '((%s + %s) mod 18446744073709551616)'}[e[1]] % (x, rhs)
            return '(let %s := %s in %s)' % (x, val, tr_s(c, rest, k_fall, k_break))
        if e[0] == 'bin' and e[1] == '=' and e[2][0] == 'var' and e[2][1] in c.types:
            v, ty = tr_e(c, e[3])
            if ty != c.types[e[2][1]]:
                v = as_bool(c, e[3]) if c.types[e[2][1]] == 'bool' else as_N(c, e[3])
            return '(let %s := %s in %s)' % (ident(e[2][1]), v, tr_s(c, rest, k_fall, k_break))
        if c.trace and not mentions([e], lambda x: x[0] in ('call', 'refarg') or (x[0] == 'bin' and isinstance(x[1], str) and x[1].endswith('=') and x[1] not in ('==', '!=', '<=', '>=', 'op==', 'op!=')) or (x[0] == 'un' and x[1] in ('++', '--', 'post++', 'post--'))):
            return tr_s(c, rest, k_fall, k_break)       # an expression without calls or assignments: (void)x;
        raise Unsupported('expression statement ' + repr(e)[:80])
    if k == 'decl':
        c.assigned_locals.add(s[1])
        if s[3] is None:
            # uninitialised local: only sound if assigned before use; give it no binding (use => Unsupported free variable)
            c.types.pop(s[1], None)
            # remember the declared type for a later assignment
            c.types[s[1]] = 'bool' if s[2] in BOOL_TYPES else 'N'
            return '(let %s := %s in %s)' % (ident(s[1]), 'false' if s[2] in BOOL_TYPES else '0', tr_s(c, rest, k_fall, k_break))
        ty = 'bool' if s[2] in BOOL_TYPES else 'N'
        v = as_bool(c, s[3]) if ty == 'bool' else as_N(c, s[3])
        if c.havoc and s[2] == 'int' and not (s[3][0] == 'int' and s[3][1] < 2 ** 31):
            # conversion of an unsigned 64-bit value to int, kept sign-extended to 64 bits (so that later arithmetic with
            # size_t operands, which converts the int to size_t, is the same arithmetic mod 2^64)
            v = '(let i32 := (%s) mod 4294967296 in if i32 <? 2147483648 then i32 else i32 + 18446744069414584320)' % v
            c.int32.add(s[1])
        elif c.havoc and s[2] in ('unsigned int', 'uint32_t') and s[3][0] != 'int':
            v = '((%s) mod 4294967296)' % v
        c.types[s[1]] = ty
        return '(let %s := %s in %s)' % (ident(s[1]), v, tr_s(c, rest, k_fall, k_break))
    if c.havoc and k in ('for', 'while', 'do'):
        return havoc_loop(c, s, rest, k_fall, k_break)
    if k == 'if' and c.havoc:
        hm = havoc_method_in_cond(c, s[1])
        if hm is not None:
            (newcond, binds) = hm
            s = ('if', newcond, s[2], s[3])
            inner = tr_s_inner(c, [s] + list(rest), k_fall, k_break)
            return ''.join('(let %s := %s in ' % b for b in binds) + inner + ')' * len(binds)
    if k == 'if' and c.trace and not getattr(c, 'in_if_try', False) and not mentions([s], lambda x: x[0] == 'call' and traced_kind(x) is not None):
        # an `if` the fragment cannot follow (and that calls no stateful collaborator) is translated like a loop: what it
        # may assign is fresh afterwards, and it may return
        saved_state = (dict(c.types), list(c.externs), c.fresh, dict(c.call_sites), list(c.lifted), dict(c.kfv), dict(c.sets_names))
        c.in_if_try = True
        try:
            c.depth += 1
            try:
                tr_s_inner(c, [s], 'DUMMY', k_break)
            finally:
                c.depth -= 1
                c.in_if_try = False
                c.types, c.externs, c.fresh, c.call_sites = dict(saved_state[0]), list(saved_state[1]), saved_state[2], dict(saved_state[3])
                c.lifted, c.kfv, c.sets_names = list(saved_state[4]), dict(saved_state[5]), dict(saved_state[6])
        except Unsupported:
            return havoc_loop(c, s, rest, k_fall, k_break)
    if k == 'if':
        cond = as_bool(c, s[1])
        t_exit, e_exit = always_exits(s[2]), always_exits(s[3])
        if t_exit and e_exit:
            c.depth += 1
            try:
                r = '(if %s%s then %s else %s)' % (cond, c.ifret(), tr_s(c, s[2], None, k_break), tr_s(c, s[3], None, k_break))
            finally:
                c.depth -= 1
            return r
        assigned = assigned_vars(s[2]) | assigned_vars(s[3])
        if c.havoc:
            assigned |= {szname(v) for v in mutated_opaque(c, [s[2], s[3]])}
        if c.trace:
            assigned |= pseudo_assigned(c, [s[2], s[3]]) | loop_writes(c, [s[2], s[3]])[0]
        kvars = [(ident(v), c.types[v]) for v in sorted(assigned) if v in c.types]
        saved = dict(c.types)
        krest = tr_s(c, rest, k_fall, k_break)
        kvars = [kv for kv in kvars if not kv[0].startswith(('szv_', 'src_', 'drf_')) or uses_name(krest, kv[0])]
        c.fresh += 1
        kn = 'k%d' % c.fresh
        types_after = dict(c.types)
        c.types = dict(saved)
        if c.lift:
            c.plan_k(kn, krest, kvars, saved)
            check_shadow(c, kn, [s[2], s[3]])
        c.depth += 1
        try:
            a = tr_s(c, s[2], c.callk(kn, kvars), k_break)
            c.types = dict(saved)
            b = tr_s(c, s[3], c.callk(kn, kvars), k_break)
        finally:
            c.depth -= 1
        c.types = types_after
        return c.bindk(kn, krest, kvars, saved, '(if %s%s then %s else %s)' % (cond, c.ifret(), a, b)) if c.lift else \
            '(let %s := %s in if %s%s then %s else %s)' % (kn, c.thunk(krest, kvars), cond, c.ifret(), a, b)
    if k == 'switch':
        v = as_N(c, s[1])
        body = s[2]
        saved = dict(c.types)
        kvars = [(ident(x), c.types[x]) for x in sorted(assigned_vars(body) | ({szname(v) for v in mutated_opaque(c, [body])} if c.havoc else set()) | ((pseudo_assigned(c, [body]) | loop_writes(c, [body])[0]) if c.trace else set())) if x in c.types]
        krest = tr_s(c, rest, k_fall, k_break)
        kvars = [kv for kv in kvars if not kv[0].startswith(('szv_', 'src_', 'drf_')) or uses_name(krest, kv[0])]
        c.fresh += 1
        kn = 'k%d' % c.fresh
        vn = 'sw%d' % c.fresh
        if c.lift:
            c.plan_k(kn, krest, kvars, saved)
            check_shadow(c, kn, [body])
        # positions of labels
        groups = []   # (labels, start index)
        i = 0
        dflt = None
        while i < len(body):
            if body[i][0] in ('case', 'default'):
                labels = []
                j = i
                while j < len(body) and body[j][0] in ('case', 'default'):
                    if body[j][0] == 'case':
                        if body[j][1] < 0:
                            raise Unsupported('non-constant case label')
                        labels.append(body[j][1])
                    else:
                        dflt = j
                    j += 1
                groups.append((labels, j, any(body[q][0] == 'default' for q in range(i, j))))
                i = j
            else:
                i += 1

        def seg(start):
            code = [x for x in body[start:] if x[0] not in ('case', 'default')]
            c.types = dict(saved)
            c.depth += 1
            try:
                r = tr_s(c, code, c.callk(kn, kvars), c.callk(kn, kvars))
            finally:
                c.depth -= 1
            return r
        term = None
        dflt_term = c.callk(kn, kvars)
        for (labels, start, isd) in groups:
            if isd:
                dflt_term = seg(start)
        term = dflt_term
        for (labels, start, isd) in reversed(groups):
            if not labels:
                continue
            test = ' || '.join('(%s =? %d)' % (vn, l) for l in labels)
            term = '(if %s%s then %s else %s)' % (test, c.ifret(), seg(start), term)
        c.types = dict(saved)
        if c.lift:
            return c.bindk(kn, krest, kvars, saved, '(let %s := %s in %s)' % (vn, v, term))
        return '(let %s := %s in let %s := %s in %s)' % (kn, c.thunk(krest, kvars), vn, v, term)
    raise Unsupported('statement ' + str(k))


def tr_s(c, ss, k_fall, k_break):
    """translate a statement list; in prefix mode the first untranslatable statement of the TOP-LEVEL
    sequence (and everything after it) becomes the result parameter `rest`"""
    if c.prefix and c.depth == 0 and ss:
        saved_types, saved_ext, saved_fresh = dict(c.types), list(c.externs), c.fresh
        saved_lift = (list(c.lifted), dict(c.kfv), dict(c.sets_names))
        try:
            return tr_s_inner(c, ss, k_fall, k_break)
        except Unsupported as e:
            c.types, c.externs, c.fresh = dict(saved_types), list(saved_ext), saved_fresh
            c.lifted, c.kfv, c.sets_names = list(saved_lift[0]), dict(saved_lift[1]), dict(saved_lift[2])
            # translate only the head statement to see whether it is the culprit
            try:
                c.prefix = False
                c.depth += 1
                tr_s_inner(c, [ss[0]], 'DUMMY', k_break)
                head_ok = True
            except Unsupported as e2:
                head_ok = False
                why = str(e2)
            finally:
                c.depth -= 1
                c.prefix = True
                c.types, c.externs, c.fresh = dict(saved_types), list(saved_ext), saved_fresh
                c.lifted, c.kfv, c.sets_names = list(saved_lift[0]), dict(saved_lift[1]), dict(saved_lift[2])
            if not head_ok:
                c.stopped_at = repr(ss[0])[:100]
                global LAST_STOP
                LAST_STOP = '[' + why + '] ' + repr(ss[0])[:200]
                ra = [a for a in getattr(c, 'rest_args', ()) if a in c.types]
                if ra:
                    c.extern('zz_rest', ('fn', [c.types[a] for a in ra], 'R'))
                    return '(zz_rest %s)' % ' '.join(ident(a) for a in ra)
                c.extern('zz_rest', 'R')
                return 'zz_rest'
            raise
    return tr_s_inner(c, ss, k_fall, k_break)


def assigned_vars(ss):
    out = set()
    for s in ss:
        if s[0] == 'expr' and s[1][0] == 'bin' and s[1][1] in ('=', '+=', '-=', '|=', '&=') and s[1][2][0] == 'var':
            out.add(s[1][2][1])
        elif s[0] == 'if':
            out |= assigned_vars(s[2]) | assigned_vars(s[3])
        elif s[0] == 'block':
            out |= assigned_vars(s[1])
        elif s[0] == 'switch':
            out |= assigned_vars(s[2])
        elif s[0] == 'for':
            out |= assigned_vars(s[1]) | assigned_vars(s[4])
        elif s[0] == 'while':
            out |= assigned_vars(s[2])
        elif s[0] == 'do':
            out |= assigned_vars(s[1])
    return out


def walk_ir(x, f):
    """apply f to every tuple node of an IR tree"""
    if isinstance(x, tuple):
        f(x)
        for y in x:
            walk_ir(y, f)
    elif isinstance(x, list):
        for y in x:
            walk_ir(y, f)


def loop_writes(c, loop):
    """(scalar locals a loop may change, out-pointers it writes through, may it return?)"""
    changed, derefs, rets = set(), set(), []

    def f(n):
        k = n[0]
        if k == 'ret':
            rets.append(n[1] if len(n) > 1 else None)
        elif k == 'bin' and len(n) == 4 and isinstance(n[1], str) and n[1].endswith('=') and n[1] not in ('==', '!=', '<=', '>='):
            t = n[2]
            if t[0] == 'var':
                changed.add(t[1])
            elif t[0] == 'un' and t[1] == '*' and t[2][0] == 'var':
                derefs.add(t[2][1])
        elif k == 'un' and len(n) == 3 and n[1] in ('++', '--', 'post++', 'post--', '&') and isinstance(n[2], tuple) and n[2][0] == 'var':
            changed.add(n[2][1])
        elif k == 'refarg' and len(n) >= 2:
            changed.add(n[1] if isinstance(n[1], str) else (n[1][1] if isinstance(n[1], tuple) and n[1][0] == 'var' else '?'))
    walk_ir(loop, f)
    return changed, derefs, rets


def havoc_loop(c, s, rest, k_fall, k_break):
    """a loop the fragment cannot follow: every scalar local it may change becomes a fresh universally quantified value
    after it; if its body contains `return`, the function may also leave there with an unknown code"""
    changed, derefs, may_ret = loop_writes(c, s)
    c.fresh += 1
    n = c.fresh
    binds = []
    for v in sorted(changed):
        if v in c.types:
            pn = 'hv%d_%s' % (n, ident(v))
            c.extern(pn, c.types[v])
            binds.append((ident(v), pn))
    c.written_derefs |= derefs
    szb = [(szname(v), fresh_size(c, v, declare=False)) for v in sorted(mutated_opaque(c, [s])) if szname(v) in c.types]
    if c.trace:
        if mentions([s], lambda x: x[0] == 'call' and traced_kind(x) is not None):
            raise Unsupported('call on a stateful collaborator inside a loop')
        for pv in sorted(pseudo_assigned(c, [s])):
            if pv in c.types:
                szb.append((pv, 'hv%d_%s' % (n, pv)))
    inner = tr_s(c, rest, k_fall, k_break)
    for b in szb:
        if uses_name(inner, b[0]):
            c.extern(b[1], 'N')
            binds.append(b)
    inner = ''.join('(let %s := %s in ' % b for b in binds) + inner + ')' * len(binds)
    if may_ret:
        ex, rv = 'hv%d_loop_returns' % n, 'hv%d_loop_rv' % n
        c.extern(ex, 'bool')
        vals = set()
        for r in may_ret:
            try:
                vals.add(as_bool(c, r) if c.ret_bool else as_N(c, r))
            except Exception:
                vals.add(None)
        if len(vals) == 1 and None not in vals and re.fullmatch(r'\d+|true|false', list(vals)[0]):
            rv = c.ret(list(vals)[0])       # every `return` inside the loop returns the same constant
        else:
            c.extern(rv, 'R')
        inner = '(if %s%s then %s else %s)' % (ex, c.ifret(), rv, inner)
    return inner


def _reset_stop():
    global LAST_STOP
    LAST_STOP = None


def translate(name, params, ptypes, ret_type, body, consts, extern_types=None, drop_params=(), eff=False, prefix=False, havoc=False, skip_setters=False, rest_args=(), out_params=(), keep_unnamed=False, trace=False, lift=False):
    """-> Coq source of `Definition gen_<name> ...`.  params/ptypes from the C++ declaration."""
    _reset_stop()
    c = Ctx(name, consts, ret_type in BOOL_TYPES, extern_types)
    c.eff, c.prefix = eff, prefix
    c.havoc = havoc
    c.skip_setters = skip_setters
    c.rest_args = tuple(rest_args)
    c.out_params = tuple(out_params)
    c.body_text = repr(body)
    plist = []
    c.params = set(params)
    for i, (p, t) in enumerate(zip(params, ptypes)):
        if p in drop_params:
            continue
        if p == '_' or not p:
            if not keep_unnamed:
                continue
            p = 'unnamed%d' % (i + 1)      # an unnamed (unused) parameter keeps its place: the signature does not change when the code starts using it
        ty = 'bool' if t in BOOL_TYPES else 'N'
        c.types[p] = ty
        plist.append((ident(p), ty))
    c.trace = trace
    c.lift = lift
    global TRACE_OPAQUE
    TRACE_OPAQUE = bool(trace)
    c.param_order = list(params)
    if trace:
        # pointees of pointer parameters that the body reads or writes as `*p`: pseudo-variables drf_<p>, initially the
        # caller's value deref_<p>
        for (p, t) in zip(params, ptypes):
            if p and (t.endswith('*') or t.endswith('_PTR')) and mentions(body, lambda x: x[0] == 'un' and len(x) == 3 and x[1] == '*' and isinstance(x[2], tuple) and strip_casts(x[2]) == ('var', p)):
                c.ptr_params.append(p)
                c.types[drfname(p)] = 'N'
    term = tr_s(c, body, None, None)
    for p in c.ptr_params:
        if uses_name(term, drfname(p)):
            c.extern('deref_' + ident(p), 'N')
            term = '(let %s := %s in %s)' % (drfname(p), 'deref_' + ident(p), term)
    if lift:
        return lifted_module(c, name, plist, term)
    sig = []
    c.externs.sort(key=lambda x: x[0])
    for (i, kd) in c.externs:
        if isinstance(kd, tuple):
            sig.append('(%s : %s)' % (i, ' -> '.join(list(kd[1]) + [kd[2]])))
        else:
            sig.append('(%s : %s)' % (i, kd))
    sig += ['(%s : %s)' % p for p in plist]
    rt = 'bool' if c.ret_bool else 'N'
    if c.eff:
        rt = '(%s * list (N * N))' % rt
        term = '(let acc : list (N * N) := nil in %s)' % term
    sig = [x.replace(': R)', ': %s)' % rt).replace('-> R)', '-> %s)' % rt) for x in sig]
    return 'Definition gen_%s %s : %s :=\n  %s.\n' % (ident(name), ' '.join(sig), rt, term), [i for (i, _) in c.externs] + [p for (p, _) in plist]


def lifted_module(c, name, plist, term):
    """lifted mode: `Module <name>` with the record of everything the function consults (uninterpreted callees, caller memory,
    fresh values, then its own parameters), one definition per continuation, `run` and `app`"""
    c.externs.sort(key=lambda x: x[0])
    rt = '(N * list (N * N))'
    fields = []
    for (i, kd) in c.externs:
        if isinstance(kd, tuple):
            t = ' -> '.join(list(kd[1]) + [kd[2]])
        else:
            t = kd
        fields.append((i, t.replace('R', rt) if t == 'R' or t.endswith('-> R') else t))
    enames = [i for (i, _) in fields]
    clash = set(enames) & ({p for (p, _) in plist} | {v for k in c.kfv.values() for (v, _) in k})
    if clash:
        raise Unsupported('a local is named like an uninterpreted value: ' + sorted(clash)[0])
    pat = re.compile(r'(?<![A-Za-z0-9_\.])(' + '|'.join(re.escape(x) for x in sorted(enames, key=len, reverse=True)) + r')(?![A-Za-z0-9_])') if enames else None
    sub = (lambda t: pat.sub(lambda m: '(%s e)' % m.group(1), t)) if pat else (lambda t: t)
    short = name.split('::')[-1]
    out = ['Module %s.' % short]
    out.append('  Record env := mk { %s }.' % ' ; '.join('%s : %s' % (b, t) for b, t in fields + [(p, t) for (p, t) in plist]))
    for d in c.lifted:
        head, body = d.split(':=\n', 1)
        out.append('  ' + head + ':=\n' + sub(body))
    out.append('  Definition run (e : env) %s: %s :=\n    (let acc : list (N * N) := nil in %s).' % (''.join('(%s : %s) ' % p for p in plist), rt, sub(term)))
    out.append('  Definition app (e : env) : %s := run e %s.' % (rt, ' '.join('(%s e)' % p for (p, _) in plist)))
    # an all-zero environment and one setter per field, for the examples that show the theorems' premises can be met
    allf = fields + [(p, t) for (p, t) in plist]
    out.append('  Definition default : env := mk %s.' % ' '.join(zero_of(t) for _, t in allf))
    for i, (b, t) in enumerate(allf):
        out.append('  Definition set_%s (v : %s) (e : env) : env := mk %s.' % (b, t, ' '.join('v' if j == i else '(%s e)' % bb for j, (bb, _) in enumerate(allf))))
    out.append('End %s.' % short)
    return '\n'.join(out) + '\n', enames + [p for (p, _) in plist]


def split_arrows(t):
    """top-level split of a Coq type at '->'"""
    parts, depth, cur = [], 0, ''
    i = 0
    while i < len(t):
        ch = t[i]
        if ch == '(':
            depth += 1
        elif ch == ')':
            depth -= 1
        if depth == 0 and t[i:i + 2] == '->':
            parts.append(cur.strip())
            cur = ''
            i += 2
            continue
        cur += ch
        i += 1
    parts.append(cur.strip())
    return parts


def zero_of(t):
    parts = split_arrows(t)
    res = parts[-1]
    z = {'N': '0', 'bool': 'false'}.get(res)
    if z is None:
        z = '(0, nil)' if res.startswith('(N * list') else '0'
    return ('(fun %s => %s)' % (' '.join('_' for _ in parts[:-1]), z)) if len(parts) > 1 else z


def env_module(name, fn, binders, setters=True):
    """Coq text of `Module <name>`: the record of the function's named parameters, `app`, an all-zero `default` and one
    setter per field, so that hand-written files name only the fields they care about"""
    out = ['Module %s.' % name]
    out.append('  Record env := mk { %s }.' % ' ; '.join('%s : %s' % (b, t) for b, t in binders))
    out.append('  Definition app (e : env) := %s %s.' % (fn, ' '.join('(%s e)' % b for b, _ in binders)))
    if not setters:
        # a function whose theorems quantify over every environment: no default, no setters (their text grows quadratically)
        out.append('  Ltac open_env := cbv beta iota delta [app %s %s].' % (fn, ' '.join(b for b, _ in binders)))
        out.append('End %s.' % name)
        return out
    out.append('  Definition default : env := mk %s.' % ' '.join(zero_of(t) for _, t in binders))
    for i, (b, t) in enumerate(binders):
        out.append('  Definition set_%s (v : %s) (e : env) : env := mk %s.' % (b, t, ' '.join('v' if j == i else '(%s e)' % bb for j, (bb, _) in enumerate(binders))))
    out.append('  Ltac open_env := cbv beta zeta iota delta [app %s %s default %s fold_right].' % (fn, ' '.join(b for b, _ in binders), ' '.join('set_' + b for b, _ in binders)))
    out.append('End %s.' % name)
    return out
