#!/usr/bin/env python3
"""clang JSON AST -> small imperative IR -> Coq terms (Base/CIR.v).

Deliberately a *serializer*: one case per clang node kind, no analysis. Unknown node kinds become
EOpaque / SOpaque, which the Coq side treats as "stuck" (can only make theorems fail).
IR (python tuples):
  expr:  ('int', n) ('bool', b) ('null',) ('str', s) ('var', name) ('this',) ('field', e, name)
         ('un', op, e) ('bin', op, a, b) ('cond', c, a, b) ('call', f, [args]) ('cast', ty, e)
         ('new', cls, [args]) ('ctor', cls, [args]) ('index', a, i) ('opaque', kind)
  stmt:  ('if', c, [then], [else]) ('ret', e|None) ('decl', name, ty, e|None) ('expr', e)
         ('switch', e, [body with ('case', n) / ('default',) labels]) ('break',) ('continue',)
         ('for', [init], c|None, inc|None, [body]) ('while', c, [body]) ('do', [body], c)
         ('block', [stmts]) ('opaque', kind)
"""
import json, subprocess, os, sys, re

REPO = os.environ.get('VERIF_REPO', '/repo')

SIZEOF = {  # LP64, as the build uses; cross-checked by gen_const (static_assert program)
    'CK_BBOOL': 1, 'CK_BYTE': 1, 'unsigned char': 1, 'char': 1, 'bool': 1,
    'CK_ULONG': 8, 'unsigned long': 8, 'CK_OBJECT_CLASS': 8, 'CK_KEY_TYPE': 8, 'CK_CERTIFICATE_TYPE': 8,
    'CK_MECHANISM_TYPE': 8, 'CK_ATTRIBUTE_TYPE': 8, 'CK_STATE': 8, 'CK_FLAGS': 8, 'CK_RV': 8, 'size_t': 8,
    'CK_DATE': 8, 'CK_ATTRIBUTE': 24, 'CK_MECHANISM': 24, 'CK_OBJECT_HANDLE': 8, 'CK_SESSION_HANDLE': 8,
    'CK_AES_CTR_PARAMS': 24, 'CK_GCM_PARAMS': 56, 'CK_RSA_PKCS_OAEP_PARAMS': 40, 'CK_RSA_PKCS_PSS_PARAMS': 24,
    'CK_ECDH1_DERIVE_PARAMS': 40, 'CK_KEY_DERIVATION_STRING_DATA': 16, 'CK_DES_CBC_ENCRYPT_DATA_PARAMS': 24,
    'CK_AES_CBC_ENCRYPT_DATA_PARAMS': 32, 'int': 4, 'unsigned int': 4, 'CK_VERSION': 2,
}


def include_flags(build):
    return ['-I' + build, '-I' + REPO + '/src/lib'] + ['-I' + REPO + '/src/lib/' + d for d in
            ('common', 'crypto', 'data_mgr', 'handle_mgr', 'object_store', 'pkcs11', 'session_mgr', 'slot_mgr')]


def ast_dump(build, src, flt, extra_flags=()):
    """All top-level decls matching the filter, as parsed JSON documents."""
    cmd = ['clang++', '-std=c++11', '-fsyntax-only', '-w', '-DNDEBUG', '-DSOFTHSM_VERIF'] + list(extra_flags) + include_flags(build) + \
          ['-Xclang', '-ast-dump=json', '-Xclang', '-ast-dump-filter=' + flt, src]
    r = subprocess.run(cmd, capture_output=True, text=True)
    s = r.stdout
    dec = json.JSONDecoder()
    docs = []
    i = 0
    n = len(s)
    while i < n:
        while i < n and s[i].isspace():
            i += 1
        if i >= n:
            break
        try:
            d, j = dec.raw_decode(s, i)
        except json.JSONDecodeError:
            break
        docs.append(d)
        i = j
    if not docs and r.returncode != 0:
        sys.stderr.write(r.stderr[-2000:])
    return docs


MEMBER = {}   # decl id -> class name, for methods (filled by build_member_map)


def demangle_class(mn):
    """class name of an Itanium-mangled member function _ZN<len><class><len><name>E..."""
    m = re.match(r'_ZNK?(\d+)', mn or '')
    if not m:
        return None
    n = int(m.group(1))
    st = m.end()
    return mn[st:st + n]


def build_member_map(docs):
    for d in docs:
        if d.get('kind') == 'CXXRecordDecl' and d.get('name'):
            for c in d.get('inner', []):
                if c.get('kind') in ('CXXMethodDecl', 'CXXConstructorDecl', 'FieldDecl') and c.get('id'):
                    MEMBER[c['id']] = d['name']
        elif d.get('kind') in ('CXXMethodDecl', 'CXXConstructorDecl'):
            cls = demangle_class(d.get('mangledName'))
            if cls and d.get('id'):
                MEMBER[d['id']] = cls


def has_body(d):
    return any(c.get('kind') == 'CompoundStmt' for c in d.get('inner', []))


# ------------------------------------------------------------------------------------------- expr
def fold(e):
    """constant-fold pure integer arithmetic"""
    k = e[0]
    if k == 'bin' and e[2][0] == 'int' and e[3][0] == 'int':
        a, b, op = e[2][1], e[3][1], e[1]
        M = (1 << 64)
        try:
            if op == '|': return ('int', a | b)
            if op == '&': return ('int', a & b)
            if op == '<<': return ('int', (a << b) % M)
            if op == '>>': return ('int', a >> b)
            if op == '+': return ('int', (a + b) % M)
            if op == '*': return ('int', (a * b) % M)
        except Exception:
            pass
    if k == 'cast' and e[2][0] == 'int':
        return e[2]
    return e


def qual(n):
    return (n.get('type') or {}).get('qualType', '')


def expr(n):
    k = n.get('kind')
    inner = n.get('inner', [])
    if k in ('ParenExpr', 'ConstantExpr', 'ExprWithCleanups', 'MaterializeTemporaryExpr', 'CXXBindTemporaryExpr', 'FullExpr'):
        if k == 'ConstantExpr' and 'value' in n:
            try:
                return ('int', int(n['value']))
            except ValueError:
                pass
        return expr(inner[0])
    if k == 'IntegerLiteral':
        return ('int', int(n['value']))
    if k == 'CharacterLiteral':
        return ('int', int(n['value']))
    if k == 'CXXBoolLiteralExpr':
        return ('bool', bool(n['value']))
    if k in ('CXXNullPtrLiteralExpr', 'GNUNullExpr'):
        return ('null',)
    if k == 'StringLiteral':
        return ('str', n.get('value', '""').strip('"'))
    if k == 'DeclRefExpr':
        rd = n.get('referencedDecl', {})
        if rd.get('kind') == 'EnumConstantDecl':
            return ('enumconst', rd.get('name', '?'))
        return ('var', rd.get('name', '?'))
    if k == 'CXXThisExpr':
        return ('this',)
    if k == 'MemberExpr':
        base = expr(inner[0])
        name = n.get('name', '?')
        if base == ('this',) and (qual(n) == '<bound member function type>' or name == 'initialized'):
            cls = MEMBER.get(n.get('referencedMemberDecl'))
            if cls:
                name = cls + '::' + name
        return ('field', base, name)
    if k == 'ImplicitCastExpr':
        ck = n.get('castKind')
        e = expr(inner[0])
        if ck in ('IntegralToBoolean', 'PointerToBoolean'):
            return ('un', 'tobool', e)
        if ck == 'NullToPointer':
            return ('null',)
        return e
    if k in ('CStyleCastExpr', 'CXXStaticCastExpr', 'CXXReinterpretCastExpr', 'CXXFunctionalCastExpr', 'CXXConstCastExpr', 'CXXDynamicCastExpr'):
        if n.get('castKind') == 'NullToPointer':
            return ('null',)
        sub = [c for c in inner if c.get('kind') != 'TypeLoc']
        return fold(('cast', qual(n), expr(sub[0])))
    if k == 'UnaryOperator':
        op = n.get('opcode')
        if n.get('isPostfix') and op in ('++', '--'):
            op = 'post' + op
        e = expr(inner[0])
        if op == '-' and e[0] == 'int':
            return ('int', (-e[1]) % (1 << 64))
        if op == '~' and e[0] == 'int':
            return ('int', (~e[1]) % (1 << 64))
        return ('un', op, e)
    if k in ('BinaryOperator', 'CompoundAssignOperator'):
        return fold(('bin', n.get('opcode'), expr(inner[0]), expr(inner[1])))
    if k == 'ConditionalOperator':
        return ('cond', expr(inner[0]), expr(inner[1]), expr(inner[2]))
    if k in ('CallExpr', 'CXXMemberCallExpr'):
        f = expr(inner[0])
        if f == ('var', 'softHSMLog'):
            return ('call', f, [])      # log calls carry __LINE__/__FILE__: drop the arguments
        return ('call', f, [refarg(c) for c in inner[1:]])
    if k == 'CXXOperatorCallExpr':
        # inner[0] is the operator function ref; operands follow
        f = expr(inner[0])
        ops = [expr(c) for c in inner[1:]]
        name = f[1] if f[0] == 'var' else '?'
        m = re.match(r'operator(.+)', name)
        sym = m.group(1) if m else name
        if len(ops) == 2:
            return ('bin', 'op' + sym, ops[0], ops[1])
        if len(ops) == 1:
            return ('un', 'op' + sym, ops[0])
        return ('call', ('var', name), ops)
    if k in ('CXXConstructExpr', 'CXXTemporaryObjectExpr'):
        cls = qual(n).replace('const ', '')
        args = [expr(c) for c in inner if c.get('kind') != 'CXXDefaultArgExpr']
        # copy/move construction is transparent
        if len(args) == 1 and n.get('ctorType', {}).get('qualType', '').count(cls) >= 1 and ('const ' + cls + ' &' in n.get('ctorType', {}).get('qualType', '') or cls + ' &&' in n.get('ctorType', {}).get('qualType', '')):
            return args[0]
        return ('ctor', cls, args)
    if k == 'CXXNewExpr':
        cls = qual(n).rstrip(' *')
        args = []
        for c in inner:
            if c.get('kind') in ('CXXConstructExpr',):
                args = [expr(a) for a in c.get('inner', []) if a.get('kind') != 'CXXDefaultArgExpr']
        return ('new', cls, args)
    if k == 'CXXDeleteExpr':
        return ('call', ('var', 'delete'), [expr(inner[0])])
    if k == 'UnaryExprOrTypeTraitExpr':
        if n.get('name') == 'sizeof':
            t = (n.get('argType') or {}).get('qualType')
            if t is None and inner:
                t = qual(inner[0])
            if t in SIZEOF:
                return ('int', SIZEOF[t])
            return ('opaque', 'sizeof:' + str(t))
    if k == 'ArraySubscriptExpr':
        return ('index', expr(inner[0]), expr(inner[1]))
    if k == 'CXXDefaultArgExpr':
        return ('opaque', 'defaultarg')
    if k == 'InitListExpr':
        return ('ctor', 'initlist', [expr(c) for c in inner])
    if k == 'ImplicitValueInitExpr':
        return ('int', 0)
    return ('opaque', str(k))


def refarg(c):
    """a call argument; a non-const variable handed over WITHOUT an lvalue-to-rvalue conversion binds to a non-const
    reference parameter: the callee may assign it, so it is not an ordinary value argument"""
    if c.get('kind') == 'DeclRefExpr' and c.get('valueCategory') == 'lvalue':
        rd = c.get('referencedDecl', {})
        t = (c.get('type') or {}).get('qualType', '')
        if rd.get('kind') in ('VarDecl', 'ParmVarDecl') and not t.startswith('const ') and '(' not in t:
            return ('refarg', rd.get('name', '?'))
    return expr(c)


# ------------------------------------------------------------------------------------------- stmt
def block(n):
    """statement list of a node (flattening CompoundStmt)"""
    if n is None:
        return []
    if n.get('kind') == 'CompoundStmt':
        out = []
        for c in n.get('inner', []):
            out += stmt(c)
        return out
    return stmt(n)


def switch_body(n, out):
    """flatten nested CaseStmt/DefaultStmt chains into a label/statement list"""
    k = n.get('kind')
    inner = n.get('inner', [])
    if k == 'CompoundStmt':
        for c in inner:
            switch_body(c, out)
    elif k == 'CaseStmt':
        v = expr(inner[0])
        out.append(('case', v[1] if v[0] == 'int' else -1))
        switch_body(inner[-1], out)
    elif k == 'DefaultStmt':
        out.append(('default',))
        switch_body(inner[-1], out)
    else:
        out += stmt(n)


def stmt(n):
    k = n.get('kind')
    inner = n.get('inner', [])
    if k == 'CompoundStmt':
        return [('block', block(n))]
    if k == 'NullStmt':
        return []
    if k == 'IfStmt':
        parts = [c for c in inner]
        c = expr(parts[0])
        t = block(parts[1]) if len(parts) > 1 else []
        e = block(parts[2]) if len(parts) > 2 else []
        return [('if', c, t, e)]
    if k == 'ReturnStmt':
        return [('ret', expr(inner[0]) if inner else None)]
    if k == 'DeclStmt':
        out = []
        for d in inner:
            if d.get('kind') == 'VarDecl':
                init = None
                sub = [c for c in d.get('inner', []) if 'Attr' not in c.get('kind', '')]
                if sub:
                    init = expr(sub[0])
                out.append(('decl', d.get('name', '?'), qual(d), init))
            else:
                out.append(('opaque', 'decl:' + str(d.get('kind'))))
        return out
    if k == 'SwitchStmt':
        body = []
        switch_body(inner[-1], body)
        return [('switch', expr(inner[0]), body)]
    if k == 'BreakStmt':
        return [('break',)]
    if k == 'ContinueStmt':
        return [('continue',)]
    if k == 'ForStmt':
        # inner: init, condvar, cond, inc, body (empty dicts for absent parts)
        p = inner + [{}] * (5 - len(inner))
        init = stmt(p[0]) if p[0].get('kind') else []
        cond = expr(p[2]) if p[2].get('kind') else None
        inc = expr(p[3]) if p[3].get('kind') else None
        return [('for', init, cond, inc, block(p[4]) if p[4].get('kind') else [])]
    if k == 'WhileStmt':
        return [('while', expr(inner[0]), block(inner[-1]))]
    if k == 'DoStmt':
        return [('do', block(inner[0]), expr(inner[1]))]
    if k == 'CXXTryStmt':
        return [('opaque', 'try')]
    if k in ('CaseStmt', 'DefaultStmt'):
        out = []
        switch_body(n, out)
        return out
    # expression statement
    e = expr(n)
    if e[0] == 'opaque':
        return [('opaque', e[1])]
    return [('expr', e)]


def func_ir(d):
    """(qualified-ish name, [param names], body IR) of a FunctionDecl / CXXMethodDecl with a body"""
    params = [c.get('name', '_') for c in d.get('inner', []) if c.get('kind') == 'ParmVarDecl']
    body = None
    inits = []
    for c in d.get('inner', []):
        if c.get('kind') == 'CompoundStmt':
            body = c
        if c.get('kind') == 'CXXCtorInitializer':
            inits.append(c)
    return params, block(body) if body else None


# ------------------------------------------------------------------------------------------- Coq
def cq_str(s):
    return '"' + s.replace('"', '""') + '"'


def cq_expr(e):
    k = e[0]
    if k == 'int': return '(EInt %d)' % e[1]
    if k == 'bool': return '(EBool %s)' % ('true' if e[1] else 'false')
    if k == 'null': return 'ENull'
    if k == 'str': return '(EStr %s)' % cq_str(''.join(ch for ch in e[1] if 32 <= ord(ch) < 127 and ch != '\\')[:40])
    if k == 'var': return '(EVar %s)' % cq_str(e[1])
    if k == 'this': return 'EThis'
    if k == 'field': return '(EField %s %s)' % (cq_expr(e[1]), cq_str(e[2]))
    if k == 'un': return '(EUn %s %s)' % (cq_str(e[1]), cq_expr(e[2]))
    if k == 'bin': return '(EBin %s %s %s)' % (cq_str(e[1]), cq_expr(e[2]), cq_expr(e[3]))
    if k == 'cond': return '(ECond %s %s %s)' % (cq_expr(e[1]), cq_expr(e[2]), cq_expr(e[3]))
    if k == 'call': return '(ECall %s [%s])' % (cq_expr(e[1]), '; '.join(cq_expr(a) for a in e[2]))
    if k == 'cast': return '(ECast %s %s)' % (cq_str(e[1]), cq_expr(e[2]))
    if k == 'new': return '(ENew %s [%s])' % (cq_str(e[1]), '; '.join(cq_expr(a) for a in e[2]))
    if k == 'ctor': return '(ECtor %s [%s])' % (cq_str(e[1]), '; '.join(cq_expr(a) for a in e[2]))
    if k == 'index': return '(EIndex %s %s)' % (cq_expr(e[1]), cq_expr(e[2]))
    return '(EOpaque %s)' % cq_str(str(e[1]) if len(e) > 1 else '?')


def cq_stmts(l, ind=2):
    pad = ' ' * ind
    if not l:
        return '[]'
    return '[\n' + ';\n'.join(pad + cq_stmt(s, ind) for s in l) + ']'


def cq_stmt(s, ind=2):
    k = s[0]
    if k == 'if': return 'SIf %s %s %s' % (cq_expr(s[1]), cq_stmts(s[2], ind + 2), cq_stmts(s[3], ind + 2))
    if k == 'ret': return 'SRet %s' % ('(Some %s)' % cq_expr(s[1]) if s[1] is not None else 'None')
    if k == 'decl': return 'SDecl %s %s %s' % (cq_str(s[1]), cq_str(s[2]), '(Some %s)' % cq_expr(s[3]) if s[3] is not None else 'None')
    if k == 'expr': return 'SExpr %s' % cq_expr(s[1])
    if k == 'switch': return 'SSwitch %s %s' % (cq_expr(s[1]), cq_stmts(s[2], ind + 2))
    if k == 'case': return 'SCase %d' % s[1]
    if k == 'default': return 'SDefault'
    if k == 'break': return 'SBreak'
    if k == 'continue': return 'SContinue'
    if k == 'for': return 'SFor %s %s %s %s' % (cq_stmts(s[1], ind + 2), '(Some %s)' % cq_expr(s[2]) if s[2] is not None else 'None', '(Some %s)' % cq_expr(s[3]) if s[3] is not None else 'None', cq_stmts(s[4], ind + 2))
    if k == 'while': return 'SWhile %s %s' % (cq_expr(s[1]), cq_stmts(s[2], ind + 2))
    if k == 'do': return 'SDo %s %s' % (cq_stmts(s[1], ind + 2), cq_expr(s[2]))
    if k == 'block': return 'SBlock %s' % cq_stmts(s[1], ind + 2)
    return 'SOpaque %s' % cq_str(str(s[1]) if len(s) > 1 else '?')


def coq_ident(name):
    return re.sub(r'[^A-Za-z0-9_]', '_', name)
