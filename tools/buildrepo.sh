#!/bin/bash
# Build /repo's CURRENT working tree (out of tree) into /verif/.cache/build-<variant>.
# variants: ossl-file (default), ossl-db, botan-file, botan-db, asan
# Never writes into /repo. Incremental (ninja), serialized with flock.
set -e
VARIANT="${1:-ossl-file}"
ROOT="$(cd "$(dirname "$0")/.." && pwd)"
REPO="${VERIF_REPO:-/repo}"
B="$ROOT/.cache/build-$VARIANT"
mkdir -p "$ROOT/.cache"
exec 9>"$ROOT/.cache/build-$VARIANT.lock"
flock 9
FLAGS="-O1 -DSOFTHSM_VERIF -DNDEBUG -Wno-error"
EXTRA=""
case "$VARIANT" in
  ossl-file) ;;
  ossl-db) EXTRA="-DWITH_OBJECTSTORE_BACKEND_DB=ON" ;;
  botan-file) EXTRA="-DWITH_CRYPTO_BACKEND=botan -DCMAKE_CXX_COMPILER_LAUNCHER=$ROOT/tools/cxx-filter.sh" ;;
  botan-db) EXTRA="-DWITH_CRYPTO_BACKEND=botan -DWITH_OBJECTSTORE_BACKEND_DB=ON -DCMAKE_CXX_COMPILER_LAUNCHER=$ROOT/tools/cxx-filter.sh" ;;
  asan) export ASAN_OPTIONS=detect_leaks=0; FLAGS="-O1 -g -DSOFTHSM_VERIF -DNDEBUG -fsanitize=address,undefined -fno-sanitize-recover=all -fno-omit-frame-pointer -Wno-error" ;;
  *) echo "unknown variant $VARIANT" >&2; exit 2 ;;
esac
if [ ! -f "$B/build.ninja" ]; then
  cmake -S "$REPO" -B "$B" -G Ninja -DBUILD_TESTS=OFF -DENABLE_P11_KIT=OFF -DDISABLE_NON_PAGED_MEMORY=ON \
    -DCMAKE_BUILD_TYPE=None -DCMAKE_EXPORT_COMPILE_COMMANDS=ON -DCMAKE_CXX_FLAGS="$FLAGS" -DCMAKE_C_FLAGS="$FLAGS" $EXTRA >"$B.cmake.log" 2>&1 || { cat "$B.cmake.log" >&2; exit 3; }
fi
if ! ninja -C "$B" softhsm2 softhsm2-static softhsm2-util >"$B.ninja.log" 2>&1; then
  tail -40 "$B.ninja.log" >&2
  exit 4
fi
echo "$B"
