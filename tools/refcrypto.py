#!/usr/bin/env python3
"""Independent reference implementations (pure Python, stdlib only) of the standard mechanisms the
correspondence streams K-crypto compare the library with: AES (FIPS 197), ECB/CBC/CTR, PKCS#7, GCM (SP 800-38D),
CMAC (SP 800-38B), AES key wrap (RFC 3394 / 5649), HMAC and digests (hashlib), raw RSA / PKCS#1 v1.5 / OAEP / PSS
checks with Python integers.  Validated against `openssl` in tools/selftest_refcrypto (supporting only)."""
import hashlib, hmac as _hmac, struct

# ------------------------------------------------------------------------------------------- AES
_SBOX = [0] * 256
_INV = [0] * 256


def _init_sbox():
    p = q = 1
    while True:
        # multiply p by 3
        p = p ^ ((p << 1) & 0xFF) ^ (0x1B if p & 0x80 else 0)
        # divide q by 3
        q ^= q << 1
        q ^= q << 2
        q ^= q << 4
        q &= 0xFF
        if q & 0x80:
            q ^= 0x09
        x = q ^ ((q << 1) | (q >> 7)) & 0xFF ^ ((q << 2) | (q >> 6)) & 0xFF ^ ((q << 3) | (q >> 5)) & 0xFF ^ ((q << 4) | (q >> 4)) & 0xFF
        _SBOX[p] = (x ^ 0x63) & 0xFF
        if p == 1:
            break
    _SBOX[0] = 0x63
    for i in range(256):
        _INV[_SBOX[i]] = i


_init_sbox()


def _xt(a):
    return ((a << 1) ^ 0x1B) & 0xFF if a & 0x80 else (a << 1)


def _mul(a, b):
    r = 0
    while b:
        if b & 1:
            r ^= a
        a = _xt(a)
        b >>= 1
    return r


def _expand(key):
    nk = len(key) // 4
    nr = nk + 6
    w = [list(key[4 * i:4 * i + 4]) for i in range(nk)]
    rcon = 1
    for i in range(nk, 4 * (nr + 1)):
        t = list(w[i - 1])
        if i % nk == 0:
            t = t[1:] + t[:1]
            t = [_SBOX[x] for x in t]
            t[0] ^= rcon
            rcon = _xt(rcon)
        elif nk > 6 and i % nk == 4:
            t = [_SBOX[x] for x in t]
        w.append([a ^ b for a, b in zip(w[i - nk], t)])
    return [sum(w[4 * r:4 * r + 4], []) for r in range(nr + 1)], nr


def aes_encrypt_block(key, block):
    rk, nr = _expand(key)
    s = [a ^ b for a, b in zip(block, rk[0])]
    for r in range(1, nr + 1):
        s = [_SBOX[x] for x in s]
        s = [s[(i + 4 * (i % 4)) % 16] for i in range(16)]           # ShiftRows (column-major state)
        if r != nr:
            t = []
            for c in range(4):
                a = s[4 * c:4 * c + 4]
                t += [_mul(a[0], 2) ^ _mul(a[1], 3) ^ a[2] ^ a[3], a[0] ^ _mul(a[1], 2) ^ _mul(a[2], 3) ^ a[3],
                      a[0] ^ a[1] ^ _mul(a[2], 2) ^ _mul(a[3], 3), _mul(a[0], 3) ^ a[1] ^ a[2] ^ _mul(a[3], 2)]
            s = t
        s = [a ^ b for a, b in zip(s, rk[r])]
    return bytes(s)


def aes_decrypt_block(key, block):
    rk, nr = _expand(key)
    s = [a ^ b for a, b in zip(block, rk[nr])]
    for r in range(nr - 1, -1, -1):
        s = [s[(i - 4 * (i % 4)) % 16] for i in range(16)]           # InvShiftRows
        s = [_INV[x] for x in s]
        s = [a ^ b for a, b in zip(s, rk[r])]
        if r != 0:
            t = []
            for c in range(4):
                a = s[4 * c:4 * c + 4]
                t += [_mul(a[0], 14) ^ _mul(a[1], 11) ^ _mul(a[2], 13) ^ _mul(a[3], 9), _mul(a[0], 9) ^ _mul(a[1], 14) ^ _mul(a[2], 11) ^ _mul(a[3], 13),
                      _mul(a[0], 13) ^ _mul(a[1], 9) ^ _mul(a[2], 14) ^ _mul(a[3], 11), _mul(a[0], 11) ^ _mul(a[1], 13) ^ _mul(a[2], 9) ^ _mul(a[3], 14)]
            s = t
    return bytes(s)


def xor(a, b):
    return bytes(x ^ y for x, y in zip(a, b))


def ecb_enc(key, data):
    return b''.join(aes_encrypt_block(key, data[i:i + 16]) for i in range(0, len(data), 16))


def ecb_dec(key, data):
    return b''.join(aes_decrypt_block(key, data[i:i + 16]) for i in range(0, len(data), 16))


def cbc_enc(key, iv, data):
    out, prev = b'', iv
    for i in range(0, len(data), 16):
        prev = aes_encrypt_block(key, xor(data[i:i + 16], prev))
        out += prev
    return out


def cbc_dec(key, iv, data):
    out, prev = b'', iv
    for i in range(0, len(data), 16):
        out += xor(aes_decrypt_block(key, data[i:i + 16]), prev)
        prev = data[i:i + 16]
    return out


def pkcs7_pad(data, bs=16):
    n = bs - len(data) % bs
    return data + bytes([n]) * n


def pkcs7_unpad(data, bs=16):
    if not data or len(data) % bs:
        return None
    n = data[-1]
    if n == 0 or n > bs or data[-n:] != bytes([n]) * n:
        return None
    return data[:-n]


def ctr(key, cb, data, bits=128):
    out = b''
    c = int.from_bytes(cb, 'big')
    mask = (1 << bits) - 1
    for i in range(0, len(data), 16):
        ks = aes_encrypt_block(key, c.to_bytes(16, 'big'))
        out += xor(data[i:i + 16], ks)
        c = (c & ~mask) | ((c + 1) & mask)
    return out


def _gmul(x, y):
    z = 0
    v = x
    for i in range(127, -1, -1):
        if (y >> i) & 1:
            z ^= v
        v = (v >> 1) ^ (0xE1 << 120) if v & 1 else v >> 1
    return z


def gcm_encrypt(key, iv, aad, pt, tagbytes=16):
    h = int.from_bytes(aes_encrypt_block(key, b'\x00' * 16), 'big')

    def ghash(a, c):
        y = 0
        for blk in [a[i:i + 16] for i in range(0, len(a), 16)] + [c[i:i + 16] for i in range(0, len(c), 16)]:
            y = _gmul(y ^ int.from_bytes(blk.ljust(16, b'\x00'), 'big'), h)
        y = _gmul(y ^ ((len(a) * 8) << 64 | (len(c) * 8)), h)
        return y
    if len(iv) == 12:
        j0 = iv + b'\x00\x00\x00\x01'
    else:
        j0 = ghash(b'', iv).to_bytes(16, 'big')      # GHASH(IV || pad || [0]64 || [len(IV)]64)
    ct = ctr(key, (int.from_bytes(j0, 'big') & ~0xFFFFFFFF | ((int.from_bytes(j0, 'big') + 1) & 0xFFFFFFFF)).to_bytes(16, 'big'), pt, 32)
    s = ghash(aad, ct)
    tag = xor(aes_encrypt_block(key, j0), s.to_bytes(16, 'big'))[:tagbytes]
    return ct, tag


def cmac(key, msg):
    def dbl(b):
        v = int.from_bytes(b, 'big') << 1
        if v >> 128:
            v = (v & ((1 << 128) - 1)) ^ 0x87
        return v.to_bytes(16, 'big')
    k1 = dbl(aes_encrypt_block(key, b'\x00' * 16))
    k2 = dbl(k1)
    n = max(1, (len(msg) + 15) // 16)
    if len(msg) and len(msg) % 16 == 0:
        last = xor(msg[-16:], k1)
    else:
        rem = msg[(n - 1) * 16:]
        last = xor((rem + b'\x80').ljust(16, b'\x00'), k2)
    x = b'\x00' * 16
    for i in range(n - 1):
        x = aes_encrypt_block(key, xor(x, msg[16 * i:16 * i + 16]))
    return aes_encrypt_block(key, xor(x, last))


# ------------------------------------------------------------------------------------------- key wrap
def kw_wrap(kek, pt, iv=b'\xA6' * 8):
    n = len(pt) // 8
    a = iv
    r = [pt[8 * i:8 * i + 8] for i in range(n)]
    for j in range(6):
        for i in range(n):
            b = aes_encrypt_block(kek, a + r[i])
            a = xor(b[:8], (n * j + i + 1).to_bytes(8, 'big'))
            r[i] = b[8:]
    return a + b''.join(r)


def kw_unwrap_raw(kek, ct):
    n = len(ct) // 8 - 1
    a = ct[:8]
    r = [ct[8 * (i + 1):8 * (i + 2)] for i in range(n)]
    for j in range(5, -1, -1):
        for i in range(n - 1, -1, -1):
            b = aes_decrypt_block(kek, xor(a, (n * j + i + 1).to_bytes(8, 'big')) + r[i])
            a = b[:8]
            r[i] = b[8:]
    return a, b''.join(r)


def kw_unwrap(kek, ct):
    if len(ct) < 24 or len(ct) % 8:
        return None
    a, p = kw_unwrap_raw(kek, ct)
    return p if a == b'\xA6' * 8 else None


def kwp_wrap(kek, pt):
    aiv = b'\xA6\x59\x59\xA6' + struct.pack('>I', len(pt))
    p = pt + b'\x00' * (-len(pt) % 8)
    if len(p) == 8:
        return aes_encrypt_block(kek, aiv + p)
    return kw_wrap(kek, p, aiv)


def kwp_unwrap(kek, ct):
    if len(ct) < 16 or len(ct) % 8:
        return None
    if len(ct) == 16:
        b = aes_decrypt_block(kek, ct)
        a, p = b[:8], b[8:]
    else:
        a, p = kw_unwrap_raw(kek, ct)
    if a[:4] != b'\xA6\x59\x59\xA6':
        return None
    mli = struct.unpack('>I', a[4:])[0]
    if not (len(p) - 8 < mli <= len(p)) or any(p[mli:]):
        return None
    return p[:mli]


# ------------------------------------------------------------------------------------------- digests / MAC
DIGESTS = {0x210: 'md5', 0x220: 'sha1', 0x255: 'sha224', 0x250: 'sha256', 0x260: 'sha384', 0x270: 'sha512'}
HMACS = {0x211: 'md5', 0x221: 'sha1', 0x256: 'sha224', 0x251: 'sha256', 0x261: 'sha384', 0x271: 'sha512'}


def digest(mech, data):
    return hashlib.new(DIGESTS[mech], data).digest()


def hmac(mech, key, data):
    return _hmac.new(key, data, HMACS[mech]).digest()


def kcv_aes(key):
    return aes_encrypt_block(key, b'\x00' * 16)[:3]


def kcv_generic(key):
    return hashlib.sha1(key).digest()[:3]


# ------------------------------------------------------------------------------------------- RSA (integers)
def mgf1(seed, n, h='sha1'):
    out = b''
    c = 0
    while len(out) < n:
        out += hashlib.new(h, seed + struct.pack('>I', c)).digest()
        c += 1
    return out[:n]


def pkcs1_v15_sig_em(digestinfo_or_data, k):
    """EMSA-PKCS1-v1_5 for CKM_RSA_PKCS (the caller supplies the DigestInfo / raw data)"""
    t = digestinfo_or_data
    if len(t) > k - 11:
        return None
    return b'\x00\x01' + b'\xff' * (k - len(t) - 3) + b'\x00' + t


def rsa_public(n, e, data):
    return pow(int.from_bytes(data, 'big'), e, n).to_bytes((n.bit_length() + 7) // 8, 'big')


def oaep_decode(em, k, label=b'', h='sha1'):
    hl = hashlib.new(h).digest_size
    if len(em) != k or em[0] != 0:
        return None
    ms, mdb = em[1:1 + hl], em[1 + hl:]
    seed = xor(ms, mgf1(mdb, hl, h))
    db = xor(mdb, mgf1(seed, k - hl - 1, h))
    if db[:hl] != hashlib.new(h, label).digest():
        return None
    i = hl
    while i < len(db) and db[i] == 0:
        i += 1
    if i == len(db) or db[i] != 1:
        return None
    return db[i + 1:]


def pss_verify(em_int_bytes, mhash, embits, slen, h='sha1'):
    hl = hashlib.new(h).digest_size
    emlen = (embits + 7) // 8
    em = em_int_bytes[-emlen:]
    if emlen < hl + slen + 2 or em[-1] != 0xBC:
        return False
    mdb, hh = em[:emlen - hl - 1], em[emlen - hl - 1:-1]
    if mdb[0] >> (8 - (8 * emlen - embits)) if (8 * emlen - embits) else 0:
        return False
    db = bytearray(xor(mdb, mgf1(hh, emlen - hl - 1, h)))
    db[0] &= 0xFF >> (8 * emlen - embits)
    ps = emlen - hl - slen - 2
    if any(db[:ps]) or db[ps] != 1:
        return False
    salt = bytes(db[-slen:]) if slen else b''
    return hashlib.new(h, b'\x00' * 8 + mhash + salt).digest() == hh


# ------------------------------------------------------------------------------- NIST P-256 (ECDH reference)
P256_P = 0xffffffff00000001000000000000000000000000ffffffffffffffffffffffff
P256_A = P256_P - 3
P256_B = 0x5ac635d8aa3a93e7b3ebbd55769886bc651d06b0cc53b0f63bce3c3e27d2604b
P256_N = 0xffffffff00000000ffffffffffffffffbce6faada7179e84f3b9cac2fc632551
P256_G = (0x6b17d1f2e12c4247f8bce6e563a440f277037d812deb33a0f4a13945d898c296,
          0x4fe342e2fe1a7f9b8ee7eb4a7c0f9e162bce33576b315ececbb6406837bf51f5)


def p256_add(P, Q):
    if P is None:
        return Q
    if Q is None:
        return P
    (x1, y1), (x2, y2) = P, Q
    if x1 == x2 and (y1 + y2) % P256_P == 0:
        return None
    if P == Q:
        l = (3 * x1 * x1 + P256_A) * pow(2 * y1, -1, P256_P) % P256_P
    else:
        l = (y2 - y1) * pow(x2 - x1, -1, P256_P) % P256_P
    x3 = (l * l - x1 - x2) % P256_P
    return (x3, (l * (x1 - x3) - y1) % P256_P)


def p256_mul(k, P):
    R = None
    while k:
        if k & 1:
            R = p256_add(R, P)
        P = p256_add(P, P)
        k >>= 1
    return R


def p256_point_bytes(P):
    return b'\x04' + P[0].to_bytes(32, 'big') + P[1].to_bytes(32, 'big')


def ecdh_p256(d, Q):
    """the shared secret of ECDH (cofactor 1): the x coordinate of d*Q, 32 octets"""
    S = p256_mul(d, Q)
    return S[0].to_bytes(32, 'big')

# ------------------------------------------------------------------------------- DES / 3DES (reference, table-driven)
_DES_IP = [58,50,42,34,26,18,10,2,60,52,44,36,28,20,12,4,62,54,46,38,30,22,14,6,64,56,48,40,32,24,16,8,57,49,41,33,25,17,9,1,59,51,43,35,27,19,11,3,61,53,45,37,29,21,13,5,63,55,47,39,31,23,15,7]
_DES_FP = [40,8,48,16,56,24,64,32,39,7,47,15,55,23,63,31,38,6,46,14,54,22,62,30,37,5,45,13,53,21,61,29,36,4,44,12,52,20,60,28,35,3,43,11,51,19,59,27,34,2,42,10,50,18,58,26,33,1,41,9,49,17,57,25]
_DES_E = [32,1,2,3,4,5,4,5,6,7,8,9,8,9,10,11,12,13,12,13,14,15,16,17,16,17,18,19,20,21,20,21,22,23,24,25,24,25,26,27,28,29,28,29,30,31,32,1]
_DES_P = [16,7,20,21,29,12,28,17,1,15,23,26,5,18,31,10,2,8,24,14,32,27,3,9,19,13,30,6,22,11,4,25]
_DES_PC1 = [57,49,41,33,25,17,9,1,58,50,42,34,26,18,10,2,59,51,43,35,27,19,11,3,60,52,44,36,63,55,47,39,31,23,15,7,62,54,46,38,30,22,14,6,61,53,45,37,29,21,13,5,28,20,12,4]
_DES_PC2 = [14,17,11,24,1,5,3,28,15,6,21,10,23,19,12,4,26,8,16,7,27,20,13,2,41,52,31,37,47,55,30,40,51,45,33,48,44,49,39,56,34,53,46,42,50,36,29,32]
_DES_SHIFTS = [1,1,2,2,2,2,2,2,1,2,2,2,2,2,2,1]
_DES_SBOX = [
 [14,4,13,1,2,15,11,8,3,10,6,12,5,9,0,7,0,15,7,4,14,2,13,1,10,6,12,11,9,5,3,8,4,1,14,8,13,6,2,11,15,12,9,7,3,10,5,0,15,12,8,2,4,9,1,7,5,11,3,14,10,0,6,13],
 [15,1,8,14,6,11,3,4,9,7,2,13,12,0,5,10,3,13,4,7,15,2,8,14,12,0,1,10,6,9,11,5,0,14,7,11,10,4,13,1,5,8,12,6,9,3,2,15,13,8,10,1,3,15,4,2,11,6,7,12,0,5,14,9],
 [10,0,9,14,6,3,15,5,1,13,12,7,11,4,2,8,13,7,0,9,3,4,6,10,2,8,5,14,12,11,15,1,13,6,4,9,8,15,3,0,11,1,2,12,5,10,14,7,1,10,13,0,6,9,8,7,4,15,14,3,11,5,2,12],
 [7,13,14,3,0,6,9,10,1,2,8,5,11,12,4,15,13,8,11,5,6,15,0,3,4,7,2,12,1,10,14,9,10,6,9,0,12,11,7,13,15,1,3,14,5,2,8,4,3,15,0,6,10,1,13,8,9,4,5,11,12,7,2,14],
 [2,12,4,1,7,10,11,6,8,5,3,15,13,0,14,9,14,11,2,12,4,7,13,1,5,0,15,10,3,9,8,6,4,2,1,11,10,13,7,8,15,9,12,5,6,3,0,14,11,8,12,7,1,14,2,13,6,15,0,9,10,4,5,3],
 [12,1,10,15,9,2,6,8,0,13,3,4,14,7,5,11,10,15,4,2,7,12,9,5,6,1,13,14,0,11,3,8,9,14,15,5,2,8,12,3,7,0,4,10,1,13,11,6,4,3,2,12,9,5,15,10,11,14,1,7,6,0,8,13],
 [4,11,2,14,15,0,8,13,3,12,9,7,5,10,6,1,13,0,11,7,4,9,1,10,14,3,5,12,2,15,8,6,1,4,11,13,12,3,7,14,10,15,6,8,0,5,9,2,6,11,13,8,1,4,10,7,9,5,0,15,14,2,3,12],
 [13,2,8,4,6,15,11,1,10,9,3,14,5,0,12,7,1,15,13,8,10,3,7,4,12,5,6,11,0,14,9,2,7,11,4,1,9,12,14,2,0,6,10,13,15,3,5,8,2,1,14,7,4,10,8,13,15,12,9,0,3,5,6,11]]


def _DES_perm(x, table, nbits):
    r = 0
    for t in table:
        r = (r << 1) | ((x >> (nbits - t)) & 1)
    return r


def _des_subkeys(key8):
    k = _DES_perm(int.from_bytes(key8, 'big'), _DES_PC1, 64)
    c, d = k >> 28, k & 0xfffffff
    ks = []
    for s in _DES_SHIFTS:
        c = ((c << s) | (c >> (28 - s))) & 0xfffffff
        d = ((d << s) | (d >> (28 - s))) & 0xfffffff
        ks.append(_DES_perm((c << 28) | d, _DES_PC2, 56))
    return ks


def _des_block(block8, ks):
    x = _DES_perm(int.from_bytes(block8, 'big'), _DES_IP, 64)
    l, r = x >> 32, x & 0xffffffff
    for k in ks:
        e = _DES_perm(r, _DES_E, 32) ^ k
        f = 0
        for i in range(8):
            six = (e >> (42 - 6 * i)) & 0x3f
            row = ((six >> 4) & 2) | (six & 1)
            f = (f << 4) | _DES_SBOX[i][row * 16 + ((six >> 1) & 0xf)]
        l, r = r, l ^ _DES_perm(f, _DES_P, 32)
    return _DES_perm((r << 32) | l, _DES_FP, 64).to_bytes(8, 'big')


def des3_block(key, block8, decrypt=False):
    """EDE with a 16-byte (K1 K2 K1) or 24-byte (K1 K2 K3) key"""
    k1, k2, k3 = key[:8], key[8:16], (key[16:24] if len(key) == 24 else key[:8])
    s1, s2, s3 = _des_subkeys(k1), _des_subkeys(k2), _des_subkeys(k3)
    if not decrypt:
        return _des_block(_des_block(_des_block(block8, s1), s2[::-1]), s3)
    return _des_block(_des_block(_des_block(block8, s3[::-1]), s2), s1[::-1])


def des3_ecb(key, data, decrypt=False):
    return b''.join(des3_block(key, data[i:i + 8], decrypt) for i in range(0, len(data), 8))


def des3_cbc_enc(key, iv, data):
    out, prev = b'', iv
    for i in range(0, len(data), 8):
        prev = des3_block(key, xor(data[i:i + 8], prev))
        out += prev
    return out


# ------------------------------------------------------------------------------- X25519 (RFC 7748), reference
def x25519(k_bytes, u_bytes):
    """scalar multiplication on Curve25519: 32-byte little-endian scalar and u-coordinate -> 32-byte shared secret"""
    p = 2 ** 255 - 19
    k = int.from_bytes(k_bytes, 'little')
    k &= ~7
    k &= ~(128 << 8 * 31)
    k |= 64 << 8 * 31
    u = int.from_bytes(u_bytes, 'little') & ((1 << 255) - 1)
    x1, x2, z2, x3, z3, swap = u, 1, 0, u, 1, 0
    for t in reversed(range(255)):
        kt = (k >> t) & 1
        swap ^= kt
        if swap:
            x2, x3, z2, z3 = x3, x2, z3, z2
        swap = kt
        a, aa = (x2 + z2) % p, 0
        aa = a * a % p
        b = (x2 - z2) % p
        bb = b * b % p
        e = (aa - bb) % p
        c = (x3 + z3) % p
        d = (x3 - z3) % p
        da, cb = d * a % p, c * b % p
        x3 = (da + cb) ** 2 % p
        z3 = x1 * (da - cb) ** 2 % p
        x2 = aa * bb % p
        z2 = e * (aa + 121665 * e) % p
    if swap:
        x2, x3, z2, z3 = x3, x2, z3, z2
    return (x2 * pow(z2, p - 2, p) % p).to_bytes(32, 'little')


X25519_BASE = (9).to_bytes(32, 'little')
