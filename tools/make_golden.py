#!/usr/bin/env python3
"""write fixtures/golden-file: a token directory produced by a given libsofthsm2.so (the PINNED version) together with
the attribute values the API returned for every object.  usage: make_golden.py <libsofthsm2.so>"""
import sys, os, json, shutil
import vlib, kstore
from p11i import P11
from kcrypto import RSAKEYS, be

lib = sys.argv[1]
h = vlib.build_harness(vlib.build_repo())
p = P11(h['p11drv'], lib, keep=True)
SO, USER = kstore.SO, kstore.NEWUSER
p.op('init')
p.op('inittoken tfree %s tok0' % SO)
s = p.op('open t0 rw').get('h')
p.op('login %s 0 %s' % (s, SO))
p.op('initpin %s %s' % (s, kstore.USER))
p.op('logout %s' % s)
assert p.rv('setpin %s %s %s' % (s, kstore.USER, USER)) == 0      # a PIN change is part of the history
assert p.rv('login %s 1 %s' % (s, USER)) == 0
k = RSAKEYS[1]
L = kstore.hexs
lines = []
for priv in (0, 1):
    t = 'p%d' % priv
    lines += [
        'create %s 0=u:0 1=b:1 2=b:%d 3=x:%s 0x10=x:%s 0x11=x:%s 0x12=x:2a03' % (s, priv, L('data-' + t), L('golden app'), '00ff' * 150),
        'create %s 0=u:0 1=b:1 2=b:%d 3=x:%s 0x11=x:%s' % (s, priv, L('empty-' + t), ''),
        'create %s 0=u:0 1=b:1 2=b:%d 3=x:%s 0x11=x:%s' % (s, priv, L('big-' + t), 'c7' * 70000),
        'create %s 0=u:4 0x100=u:0x1f 1=b:1 2=b:%d 3=x:%s 0x11=x:%s 0x162=b:1 0x103=b:0 0x102=x:0102030405 0x40000600=m:0x1082;0x1085;0x1087 0x110=x:3230323430313031 0x111=x:3230333031323331'
        % (s, priv, L('aes-' + t), '3c' * 32),
        'create %s 0=u:4 0x100=u:0x10 1=b:1 2=b:%d 3=x:%s 0x11=x:%s 0x162=b:1 0x103=b:0 0x108=b:1 0x10a=b:1' % (s, priv, L('hmac-' + t), '4d' * 48),
        'create %s 0=u:2 0x100=u:0 1=b:1 2=b:%d 3=x:%s 0x120=x:%s 0x122=x:%s 0x106=b:1 0x40000211=t:0~u^4;0x100~u^0x1f;0x162~b^1'
        % (s, priv, L('rsapub-' + t), be(int(k['n'], 16)), be(int(k['e'], 16))),
        'create %s 0=u:1 0x80=u:0 1=b:1 2=b:%d 3=x:%s 0x101=x:3000 0x11=x:%s' % (s, priv, L('cert-' + t), '30820100' + 'aa' * 60),
    ]
lines.append('create %s 0=u:3 0x100=u:0 1=b:1 2=b:1 3=x:%s 0x120=x:%s 0x122=x:%s 0x123=x:%s 0x124=x:%s 0x125=x:%s 0x126=x:%s 0x127=x:%s 0x128=x:%s 0x103=b:0 0x162=b:1 0x108=b:1'
             % (s, L('rsapriv'), be(int(k['n'], 16)), be(int(k['e'], 16)), be(int(k['d'], 16)), be(int(k['p'], 16)), be(int(k['q'], 16)), be(int(k['dp'], 16)), be(int(k['dq'], 16)), be(int(k['qinv'], 16))))
lines.append('genkey %s 0x1080 0=u:4 0x100=u:0x1f 0x161=u:32 1=b:1 2=b:1 3=x:%s 0x162=b:1 0x103=b:0' % (s, L('generated')))
lines.append('genpair %s 0x1040 0x180=x:06082a8648ce3d030107 1=b:1 2=b:0 3=x:%s -- 1=b:1 2=b:1 3=x:%s 0x103=b:0 0x162=b:1' % (s, L('ecpub'), L('ecpriv')))
for l in lines:
    assert p.rv(l) == 0, (l[:100], p.trace[-1][1])
v = kstore.strip(kstore.view(p, s, big=True))
# a destroyed object and a modified one are part of the history too
tmp = p.op('create %s 0=u:0 1=b:1 2=b:0 3=x:%s 0x11=x:0102' % (s, L('destroyed')))
assert p.rv('destroy %s %s' % (s, tmp['h'])) == 0
v = kstore.strip(kstore.view(p, s, big=True))
p.close()
dst = os.path.join(vlib.ROOT, 'fixtures', 'golden-file')
shutil.rmtree(dst, ignore_errors=True)
os.makedirs(dst)
shutil.copytree(os.path.join(p.dir, 'tokens'), os.path.join(dst, 'tokens'))
json.dump({'so': SO, 'user': USER, 'old_user': kstore.USER, 'label': 'tok0', 'objects': {k_: [list(a) for a in at] for k_, at in v.items()},
           'written_by': 'libsofthsm2.so built from the pinned commit 4957998 (tools/make_golden.py)'}, open(os.path.join(dst, 'golden.json'), 'w'))
shutil.rmtree(p.dir, ignore_errors=True)
print('golden fixture:', dst, len(v), 'objects')
