#!/usr/bin/env python3
"""K-attr: attribute policy of key objects on the built library (C02, C08): every way a key comes to exist x
protection flags x every weakening attempt; the findings are the property text read on the real answers, with
ghost bookkeeping of how each key was made (for the history attributes)."""
import os, json, random
import refcrypto as R
from p11i import P11
from kcrypto import RSAKEYS, be, hx, Ctx

A = dict(CLASS=0, TOKEN=1, PRIVATE=2, LABEL=3, VALUE=0x11, TRUSTED=0x86, CHECK_VALUE=0x90, KEY_TYPE=0x100, ID=0x102, SENSITIVE=0x103,
         ENCRYPT=0x104, DECRYPT=0x105, WRAP=0x106, UNWRAP=0x107, SIGN=0x108, VERIFY=0x10a, DERIVE=0x10c, MODULUS=0x120, PUBLIC_EXPONENT=0x122,
         PRIVATE_EXPONENT=0x123, PRIME_1=0x124, PRIME_2=0x125, EXPONENT_1=0x126, EXPONENT_2=0x127, COEFFICIENT=0x128, VALUE_LEN=0x161,
         EXTRACTABLE=0x162, LOCAL=0x163, NEVER_EXTRACTABLE=0x164, ALWAYS_SENSITIVE=0x165, KEY_GEN_MECHANISM=0x166, MODIFIABLE=0x170,
         COPYABLE=0x171, DESTROYABLE=0x172, WRAP_WITH_TRUSTED=0x210)
UNAVAIL = (1 << 64) - 1
SENS, RO = 0x11, 0x10


class Key:
    """ghost record of a key the application made"""

    def __init__(self, h, value, sens, extr, local, kgm, as_, ne, cls=4, ktype=0x1f, origin='', wwt=False, secrets=None):
        self.h, self.value, self.sens, self.extr = h, value, sens, extr
        self.local, self.kgm, self.as_, self.ne = local, kgm, as_, ne
        self.cls, self.ktype, self.origin, self.wwt = cls, ktype, origin, wwt
        self.secrets = secrets or ({A['VALUE']: value} if value is not None else {})
        self.modifiable, self.copyable, self.destroyable = True, True, True

    def protected(self):
        return self.sens or not self.extr


def bool_attr(p, s, h, a):
    v = p.attr(s, h, a)
    return None if v is None else v != b'\x00'


def check_history(c, s, k, when):
    p = c.p
    for a, name, exp in ((A['LOCAL'], 'CKA_LOCAL', k.local), (A['ALWAYS_SENSITIVE'], 'CKA_ALWAYS_SENSITIVE', k.as_), (A['NEVER_EXTRACTABLE'], 'CKA_NEVER_EXTRACTABLE', k.ne)):
        if k.cls == 2 and a != A['LOCAL']:
            continue
        got = bool_attr(p, s, k.h, a)
        if got is not None and exp is not None and got != exp:
            c.bad('%s (%s key): %s is %s but the key %s' % (when, k.origin, name, got, {
                'CKA_LOCAL': 'was %sgenerated on the token' % ('' if exp else 'not '),
                'CKA_ALWAYS_SENSITIVE': 'has %sbeen sensitive at all times since it was made' % ('' if exp else 'not '),
                'CKA_NEVER_EXTRACTABLE': 'has %s' % ('never been extractable' if exp else 'been extractable')}[name]))
    g = p.attr(s, k.h, A['KEY_GEN_MECHANISM'])
    if g is not None and k.kgm is not None and int.from_bytes(g, 'little') != k.kgm:
        c.bad('%s (%s key): CKA_KEY_GEN_MECHANISM is 0x%x, expected 0x%x' % (when, k.origin, int.from_bytes(g, 'little'), k.kgm))
    sv, ev = bool_attr(p, s, k.h, A['SENSITIVE']), bool_attr(p, s, k.h, A['EXTRACTABLE'])
    if sv is not None and sv != k.sens and k.cls != 2:
        c.bad('%s (%s key): CKA_SENSITIVE is %s, expected %s' % (when, k.origin, sv, k.sens))
    if ev is not None and ev != k.extr and k.cls != 2:
        c.bad('%s (%s key): CKA_EXTRACTABLE is %s, expected %s' % (when, k.origin, ev, k.extr))


def check_reveal(c, rng, s, k):
    """C_GetAttributeValue of the secret attributes with any buffer, alone or mixed with others"""
    p = c.p
    for a, val in list(k.secrets.items())[:rng.randint(1, 3)]:
        n = len(val) if val is not None else 16
        buf = rng.choice(['null', '0', str(max(0, n - 1)), str(n), str(n + 9)])
        mix = rng.random() < 0.5
        q = ['0x%x:%s' % (a, buf)]
        if mix:
            q.insert(rng.randrange(2), '0x%x:64' % A['LABEL'])
            q.insert(rng.randrange(3), '0x%x:8' % A['CLASS'])
        r = p.op('getattr %s %s %s' % (s, k.h, ' '.join(q)))
        ent = [e for e in r.get('attrs', []) if e[0] == a]
        if not ent:
            continue
        t, ln, hx_ = ent[0]
        if k.protected():
            if r.get('rv') != '0x11':
                c.bad('C_GetAttributeValue of a secret attribute 0x%x of a %s key answered %s instead of CKR_ATTRIBUTE_SENSITIVE' % (a, 'sensitive' if k.sens else 'non-extractable', r.get('rv')))
            if ln != '-1':
                c.bad('the length of a protected attribute 0x%x was reported as %s, not CK_UNAVAILABLE_INFORMATION' % (a, ln))
            if hx_ and set(hx_.lower().replace('w', '')) - set('a5'):
                c.bad('C_GetAttributeValue wrote bytes of a protected attribute 0x%x into the caller\'s buffer' % a)
            if mix:
                lab = [e for e in r.get('attrs', []) if e[0] == A['CLASS']]
                if lab and lab[0][1] != '8':
                    c.bad('an unprotected attribute in the same template was not answered (length %s)' % lab[0][1])
        else:
            if buf not in ('null',) and int(buf) >= n and val is not None:
                if r.get('rv') == '0x0' and not mix and bytes.fromhex(hx_ or '') != val:
                    c.bad('the value of an unprotected key attribute 0x%x is not the one the key was made with' % a)


def try_weaken(c, rng, s, k):
    """every protection must survive C_SetAttributeValue and C_CopyObject"""
    p = c.p
    tb = rng.choice(['1', '1', '2', '0x80', '0xff'])       # canonical and non-canonical "true"
    attempts = []
    if k.sens:
        attempts.append(('0x%x=b:0' % A['SENSITIVE'], 'CKA_SENSITIVE true -> false'))
    if not k.extr:
        attempts.append(('0x%x=b:%s' % (A['EXTRACTABLE'], tb), 'CKA_EXTRACTABLE false -> true (byte %s)' % tb))
    if k.wwt:
        attempts.append(('0x%x=b:0' % A['WRAP_WITH_TRUSTED'], 'CKA_WRAP_WITH_TRUSTED true -> false'))
    for item, what in attempts:
        extra = rng.choice(['', '3=x:6e6577 ', ''])
        if k.modifiable:
            r = p.op('setattr %s %s %s%s' % (s, k.h, extra, item))
            if r.get('rv') == '0x0':
                c.bad('C_SetAttributeValue removed a protection: %s' % what)
        if k.copyable:
            r = p.op('copy %s %s %s%s' % (s, k.h, extra, item))
            if r.get('rv') == '0x0':
                h2 = r['h']
                sv, ev = bool_attr(p, s, h2, A['SENSITIVE']), bool_attr(p, s, h2, A['EXTRACTABLE'])
                if (k.sens and sv is False) or ((not k.extr) and ev is True):
                    c.bad('C_CopyObject produced a copy without a protection: %s' % what)
                if k.wwt and bool_attr(p, s, h2, A['WRAP_WITH_TRUSTED']) is False:
                    c.bad('C_CopyObject produced a copy without CKA_WRAP_WITH_TRUSTED')
    check_history(c, s, k, 'after weakening attempts')
    check_reveal(c, rng, s, k)


def try_wrap(c, rng, s, k, hw, hw_trusted):
    p = c.p
    mech = rng.choice(['0x210a', '0x1085:x:%s' % (b'\x01' * 16).hex()] + (['0x2109'] if k.cls == 4 else []))
    r = p.op('wrap %s %s %s %s %d' % (s, mech, hw, k.h, 512 if k.cls == 4 else 2600))
    if r.get('rv') == '0x0':
        if not k.extr:
            c.bad('C_WrapKey succeeded on a key with CKA_EXTRACTABLE false')
        if k.wwt:
            c.bad('C_WrapKey wrapped a CKA_WRAP_WITH_TRUSTED key under a wrapping key that is not trusted')
    if k.wwt and k.extr and hw_trusted:
        r = p.op('wrap %s 0x210a %s %s 512' % (s, hw_trusted, k.h))
        if r.get('rv') != '0x0' and len(k.value or b'x' * 16) >= 1:
            c.bad('C_WrapKey under a trusted wrapping key was refused (rv=%s)' % r.get('rv'))


def readonly_and_gates(c, rng, s, k):
    p = c.p
    ro = [('0x%x=u:%d' % (A['CLASS'], 3 if k.cls == 4 else 4), 'CKA_CLASS'), ('0x%x=u:0x10' % A['KEY_TYPE'] if k.ktype != 0x10 else '0x%x=u:0x1f' % A['KEY_TYPE'], 'CKA_KEY_TYPE'),
          ('0x%x=b:%d' % (A['LOCAL'], 0 if k.local else 1), 'CKA_LOCAL'), ('0x%x=b:%d' % (A['ALWAYS_SENSITIVE'], 0 if k.as_ else 1), 'CKA_ALWAYS_SENSITIVE'),
          ('0x%x=b:%d' % (A['NEVER_EXTRACTABLE'], 0 if k.ne else 1), 'CKA_NEVER_EXTRACTABLE'), ('0x%x=u:0x1080' % A['KEY_GEN_MECHANISM'], 'CKA_KEY_GEN_MECHANISM'),
          ('0x%x=b:1' % A['TOKEN'], 'CKA_TOKEN'), ('0x%x=b:1' % A['PRIVATE'], 'CKA_PRIVATE')]
    if k.cls == 4:
        ro.append(('0x%x=x:%s' % (A['VALUE'], '00' * 16), 'CKA_VALUE'))
    item, name = rng.choice(ro)
    pos = rng.choice(['first', 'last', 'alone'])
    good = '3=x:%s' % ('L%04d' % rng.randrange(10000)).encode().hex()
    tm = item if pos == 'alone' else ('%s %s' % (item, good) if pos == 'first' else '%s %s' % (good, item))
    before = p.attr(s, k.h, A['LABEL'])
    r = p.op('setattr %s %s %s' % (s, k.h, tm))
    if r.get('rv') == '0x0':
        c.bad('C_SetAttributeValue accepted the read-only attribute %s' % name)
    elif p.attr(s, k.h, A['LABEL']) != before:
        c.bad('a C_SetAttributeValue rejected because of %s still applied the other template entries' % name)
    if name not in ('CKA_TOKEN', 'CKA_PRIVATE') and k.copyable:
        r = p.op('copy %s %s %s' % (s, k.h, tm))
        if r.get('rv') == '0x0':
            c.bad('C_CopyObject accepted the read-only attribute %s' % name)
    # gates
    g = rng.choice(['modifiable', 'copyable', 'destroyable'])
    r = p.op('copy %s %s 0x%x=b:0 3=x:67617465' % (s, k.h, {'modifiable': A['MODIFIABLE'], 'copyable': A['COPYABLE'], 'destroyable': A['DESTROYABLE']}[g])) if k.copyable else {}
    if r.get('rv') == '0x0':
        h2 = r['h']
        if g == 'modifiable' and p.rv('setattr %s %s 3=x:78' % (s, h2)) == 0:
            c.bad('an object with CKA_MODIFIABLE false was changed by C_SetAttributeValue')
        if g == 'copyable' and p.rv('copy %s %s 3=x:79' % (s, h2)) == 0:
            c.bad('an object with CKA_COPYABLE false was copied')
        if g == 'destroyable' and p.rv('destroy %s %s' % (s, h2)) == 0:
            c.bad('an object with CKA_DESTROYABLE false was destroyed')
        if g == 'copyable' and p.rv('setattr %s %s 0x%x=b:1' % (s, h2, A['COPYABLE'])) == 0 and bool_attr(p, s, h2, A['COPYABLE']):
            c.bad('CKA_COPYABLE was set back to true')


RO_BY_CLASS = [
    # (what, creation template, [(attribute, new value, name)]): attributes PKCS#11 makes read-only once the object exists
    ('RSA public key', '0=u:2 0x100=u:0 0x120=x:%s 0x122=x:010001 1=b:0 2=b:0' % ('c7' * 64),
     [('0x120', 'x:' + 'd1' * 64, 'CKA_MODULUS'), ('0x122', 'x:03', 'CKA_PUBLIC_EXPONENT'), ('0x121', 'u:2048', 'CKA_MODULUS_BITS'), ('0x129', 'x:3003020100', 'CKA_PUBLIC_KEY_INFO'),
      ('0x100', 'u:3', 'CKA_KEY_TYPE'), ('0', 'u:3', 'CKA_CLASS'), ('0x163', 'b:1', 'CKA_LOCAL'), ('0x166', 'u:0', 'CKA_KEY_GEN_MECHANISM')]),
    ('EC public key', '0=u:2 0x100=u:3 0x180=x:06082a8648ce3d030107 0x181=x:0441%s 1=b:0 2=b:0' % ('04' + '19' * 64),
     [('0x180', 'x:06052b81040022', 'CKA_EC_PARAMS'), ('0x181', 'x:0441' + '04' + '23' * 64, 'CKA_EC_POINT'), ('0x129', 'x:3003020100', 'CKA_PUBLIC_KEY_INFO'), ('0x100', 'u:0', 'CKA_KEY_TYPE')]),
    ('X.509 certificate', '0=u:1 0x80=u:0 0x101=x:3000 0x11=x:3082 1=b:0 2=b:0',
     [('0x80', 'u:1', 'CKA_CERTIFICATE_TYPE'), ('0x11', 'x:3083', 'CKA_VALUE'), ('0x101', 'x:3001', 'CKA_SUBJECT'), ('0', 'u:0', 'CKA_CLASS'), ('0x129', 'x:3003020100', 'CKA_PUBLIC_KEY_INFO')]),
    ('DSA domain parameters', '0=u:6 0x100=u:1 0x130=x:%s 0x131=x:%s 0x132=x:%s 1=b:0 2=b:0' % ('d1' * 64, 'd2' * 20, 'd3' * 64),
     [('0x130', 'x:' + 'e1' * 64, 'CKA_PRIME'), ('0x131', 'x:' + 'e2' * 20, 'CKA_SUBPRIME'), ('0x132', 'x:' + 'e3' * 64, 'CKA_BASE'), ('0x100', 'u:2', 'CKA_KEY_TYPE'), ('0x163', 'b:1', 'CKA_LOCAL')]),
]


def readonly_by_class(c, rng, s):
    """for object classes other than secret / private keys: every attribute PKCS#11 makes read-only after creation is refused by
    C_SetAttributeValue (alone, or next to a harmless one - which then is not applied either) and the value stays"""
    p = c.p
    what, tm, ros = rng.choice(RO_BY_CLASS)
    r = p.op('create %s %s 3=x:%s' % (s, tm, b'roc'.hex()))
    if r.get('rv') != '0x0':
        return
    h = r['h']
    for (a, v, name) in rng.sample(ros, min(len(ros), 3)):
        before = p.op('getattr %s %s %s:4096 3:64' % (s, h, a)).get('attrs')
        pos = rng.choice(['alone', 'first', 'last'])
        good = '3=x:%s' % ('R%04d' % rng.randrange(10000)).encode().hex()
        item = '%s=%s' % (a, v)
        line = item if pos == 'alone' else ('%s %s' % (item, good) if pos == 'first' else '%s %s' % (good, item))
        rv = p.rv('setattr %s %s %s' % (s, h, line))
        after = p.op('getattr %s %s %s:4096 3:64' % (s, h, a)).get('attrs')
        if rv == 0:
            c.bad('C_SetAttributeValue accepted the read-only attribute %s of a %s' % (name, what))
            return
        if after != before:
            c.bad('a C_SetAttributeValue on a %s that was refused because of %s changed the object all the same' % (what, name))
            return


def forbidden_on_creation(c, rng, s, hbase):
    """the four history attributes cannot be supplied by the caller in any creating call"""
    p = c.p
    a, v = rng.choice([(A['LOCAL'], 'b:1'), (A['ALWAYS_SENSITIVE'], 'b:1'), (A['NEVER_EXTRACTABLE'], 'b:1'), (A['KEY_GEN_MECHANISM'], 'u:0x1080'),
                       (A['LOCAL'], 'b:0'), (A['NEVER_EXTRACTABLE'], 'b:0')])
    item = '0x%x=%s' % (a, v)
    n0 = count(p, s)
    how = rng.choice(['create', 'generate', 'derive'])
    if how == 'create':
        r = p.op('create %s 0=u:4 0x100=u:0x1f 0x11=x:%s 1=b:0 2=b:0 %s' % (s, '11' * 16, item))
    elif how == 'generate':
        r = p.op('genkey %s 0x1080 0=u:4 0x100=u:0x1f 0x161=u:16 1=b:0 2=b:0 %s' % (s, item))
    else:
        r = p.op('derive %s 0x362:sd:0102 %s 0=u:4 0x100=u:0x10 0x161=u:8 1=b:0 2=b:0 %s' % (s, hbase, item))
    if r.get('rv') == '0x0':
        c.bad('C_%s accepted a caller-supplied attribute 0x%x' % ({'create': 'CreateObject', 'generate': 'GenerateKey', 'derive': 'DeriveKey'}[how], a))
    elif count(p, s) != n0:
        c.bad('a rejected %s left an object behind' % how)


def count(p, s):
    p.op('findinit %s' % s)
    r = p.op('findseq %s 1000' % s)
    p.op('findfinal %s' % s)
    return int(r.get('n', '-1'))


def make_key(c, rng, s, hw, wkey, bases):
    """a secret key by one of the five origins, with random protection flags"""
    p = c.p
    sens, extr = rng.random() < 0.5, rng.random() < 0.5
    wwt = rng.random() < 0.2
    origin = rng.choice(['create', 'generate', 'unwrap', 'derive', 'derive2', 'copy', 'setlater'])
    fl = '0x%x=b:%d 0x%x=b:%d' % (A['SENSITIVE'], sens, A['EXTRACTABLE'], extr) + (' 0x%x=b:1' % A['WRAP_WITH_TRUSTED'] if wwt else '')
    common = '1=b:0 2=b:0 0x104=b:1 0x105=b:1 0x10c=b:1 0x106=b:1 0x107=b:1'
    val = bytes(rng.randrange(256) for _ in range(16))
    if origin == 'create':
        r = p.op('create %s 0=u:4 0x100=u:0x1f 0x11=x:%s %s %s' % (s, val.hex(), common, fl))
        k = Key(r.get('h'), val, sens, extr, False, UNAVAIL, False, False, origin=origin, wwt=wwt)
    elif origin == 'generate':
        r = p.op('genkey %s 0x1080 0=u:4 0x100=u:0x1f 0x161=u:16 %s %s' % (s, common, fl))
        k = Key(r.get('h'), None, sens, extr, True, 0x1080, sens, not extr, origin=origin, wwt=wwt)
    elif origin == 'unwrap':
        blob = R.kwp_wrap(wkey, val)
        r = p.op('unwrap %s 0x210a %s %s 0=u:4 0x100=u:0x1f %s %s' % (s, hw, blob.hex(), common, fl))
        k = Key(r.get('h'), val, sens, extr, False, UNAVAIL, False, False, origin=origin, wwt=wwt)
    elif origin in ('derive', 'derive2') and bases:
        b = rng.choice(bases)
        if b.value is None and origin == 'derive':
            data = bytes(rng.randrange(256) for _ in range(16))
            r = p.op('derive %s 0x1104:sd:%s %s 0=u:4 0x100=u:0x1f 0x161=u:16 %s %s' % (s, data.hex(), b.h, common, fl))
            val2 = None
        elif origin == 'derive' and b.value is not None and b.ktype == 0x1f:
            data = bytes(rng.randrange(256) for _ in range(16))
            r = p.op('derive %s 0x1104:sd:%s %s 0=u:4 0x100=u:0x1f 0x161=u:16 %s %s' % (s, data.hex(), b.h, common, fl))
            val2 = R.ecb_enc(b.value, data)
        else:
            # concatenation: the derived key INHERITS the protections of the base key(s), whatever the template says
            data = bytes(rng.randrange(256) for _ in range(8))
            which = rng.choice(['0x362', '0x363', '0x360'])
            other = None
            if which == '0x360':
                other = rng.choice(bases)
                r = p.op('derive %s 0x360:h:%s %s 0=u:4 0x100=u:0x10 0x161=u:16 %s %s' % (s, other.h, b.h, common, fl))
                val2 = (b.value + other.value)[:16] if b.value is not None and other.value is not None else None
                sens = sens or b.sens or other.sens
                extr = extr and b.extr and other.extr
                as_, ne = b.as_ and other.as_, b.ne and other.ne
            else:
                r = p.op('derive %s %s:sd:%s %s 0=u:4 0x100=u:0x10 0x161=u:16 %s %s' % (s, which, data.hex(), b.h, common, fl))
                val2 = ((b.value + data) if which == '0x362' else (data + b.value))[:16] if b.value is not None else None
                sens = sens or b.sens
                extr = extr and b.extr
                as_, ne = b.as_, b.ne
            k = Key(r.get('h'), val2, sens, extr, False, UNAVAIL, as_, ne, ktype=0x10, origin='derive(concat from %s)' % b.origin, wwt=wwt)
            if r.get('rv') != '0x0':
                return None
            return k
        k = Key(r.get('h'), val2, sens, extr, False, UNAVAIL, b.as_ and sens, b.ne and not extr, origin='derive(from %s)' % b.origin, wwt=wwt)
    elif origin == 'copy' and bases:
        b = rng.choice(bases)
        if not b.copyable:
            return None
        # a copy may only strengthen
        s2, e2 = b.sens or sens, b.extr and extr
        r = p.op('copy %s %s 0x%x=b:%d 0x%x=b:%d' % (s, b.h, A['SENSITIVE'], s2, A['EXTRACTABLE'], e2))
        k = Key(r.get('h'), b.value, s2, e2, b.local, b.kgm, b.as_, b.ne, ktype=b.ktype, origin='copy(of %s)' % b.origin, wwt=b.wwt)
    elif origin == 'setlater':
        # made unprotected, protected later: the history attributes must remember
        r = p.op('genkey %s 0x1080 0=u:4 0x100=u:0x1f 0x161=u:16 %s 0x%x=b:0 0x%x=b:1' % (s, common, A['SENSITIVE'], A['EXTRACTABLE']))
        k = Key(r.get('h'), None, False, True, True, 0x1080, False, False, origin='generate-then-protect', wwt=False)
        if r.get('rv') != '0x0':
            return None
        k.value = p.attr(s, k.h, A['VALUE'])
        k.secrets = {A['VALUE']: k.value}
        if sens:
            if p.rv('setattr %s %s 0x%x=b:1' % (s, k.h, A['SENSITIVE'])) == 0:
                k.sens = True
        if not extr:
            if p.rv('setattr %s %s 0x%x=b:0' % (s, k.h, A['EXTRACTABLE'])) == 0:
                k.extr = False
        return k
    else:
        return None
    if r.get('rv') != '0x0' or not k.h:
        return None
    return k


def make_rsa_priv(c, rng, s, hw=None):
    p = c.p
    kk = RSAKEYS[rng.choice([0, 1])]
    sens, extr = rng.random() < 0.5, rng.random() < 0.5
    comp = {A['PRIVATE_EXPONENT']: 'd', A['PRIME_1']: 'p', A['PRIME_2']: 'q', A['EXPONENT_1']: 'dp', A['EXPONENT_2']: 'dq', A['COEFFICIENT']: 'qinv'}
    tm = ' '.join('0x%x=x:%s' % (a, be(int(kk[n], 16))) for a, n in comp.items())
    r = p.op('create %s 0=u:3 0x100=u:0 0x120=x:%s 0x122=x:%s %s 1=b:0 2=b:0 0x108=b:1 0x105=b:1 0x%x=b:%d 0x%x=b:%d'
             % (s, be(int(kk['n'], 16)), be(int(kk['e'], 16)), tm, A['SENSITIVE'], sens, A['EXTRACTABLE'], extr))
    if r.get('rv') != '0x0':
        return None
    secrets = {a: bytes.fromhex(be(int(kk[n], 16))) for a, n in comp.items()}
    k0 = Key(r['h'], None, sens, extr, False, UNAVAIL, False, False, cls=3, ktype=0, origin='create(RSA private)', secrets=secrets)
    if hw and extr and rng.random() < 0.5:
        # the same key once more, UNWRAPPED from what C_WrapKey made of it: never local, never "always sensitive" / "never extractable"
        mech = rng.choice(['0x210a', '0x1085:x:%s' % ('00' * 16)])
        w = p.op('wrap %s %s %s %s 2600' % (s, mech, hw, r['h']))
        if w.get('rv') == '0x0' and w.get('out'):
            s2, e2 = rng.random() < 0.5, rng.random() < 0.5
            u = p.op('unwrap %s %s %s %s 0=u:3 0x100=u:0 1=b:0 2=b:0 0x108=b:1 0x105=b:1 0x%x=b:%d 0x%x=b:%d' % (s, mech, hw, w['out'], A['SENSITIVE'], s2, A['EXTRACTABLE'], e2))
            if u.get('rv') == '0x0' and u.get('h'):
                return Key(u['h'], None, s2, e2, False, UNAVAIL, False, False, cls=3, ktype=0, origin='unwrap(RSA private)', secrets=secrets)
    return k0


def seq_attr(lib, p11drv, seed, idx):
    rng = random.Random(seed * 2750159 + idx)
    p = P11(p11drv, lib)
    c = Ctx(p)
    try:
        p.op('init')
        p.op('inittoken tfree 31323334 tok0')
        s = p.op('open t0 rw').get('h')
        p.op('login %s 0 31323334' % s)
        p.op('initpin %s 35363738' % s)
        # a trusted wrapping key can only be made by the SO (on a public object)
        wkey = bytes(rng.randrange(256) for _ in range(16))
        hwt = p.op('create %s 0=u:4 0x100=u:0x1f 0x11=x:%s 1=b:1 2=b:0 0x106=b:1 0x107=b:1 0x%x=b:1' % (s, wkey.hex(), A['TRUSTED'])).get('h')
        hpub = p.op('create %s 0=u:4 0x100=u:0x1f 0x11=x:%s 1=b:1 2=b:0 0x106=b:1 3=x:7075' % (s, wkey.hex())).get('h')
        p.op('logout %s' % s)
        # as user: CKA_TRUSTED cannot be switched on
        p.op('login %s 1 35363738' % s)
        tv = rng.choice(['b:1', 'b:1', 'x:02', 'x:80', 'x:ff'])        # any non-zero CK_BBOOL is true
        if hpub and p.rv('setattr %s %s 0x%x=%s' % (s, hpub, A['TRUSTED'], tv)) == 0 and bool_attr(p, s, hpub, A['TRUSTED']):
            c.bad('CKA_TRUSTED was set true by the normal user (value %s)' % tv)
        for tmpl in ('0=u:4 0x100=u:0x1f 0x11=x:%s 1=b:0 2=b:0' % wkey.hex(), '0=u:2 0x100=u:0 0x120=x:%s 0x122=x:010001 1=b:0 2=b:0' % ('c5' * 64), '0=u:1 0x80=u:0 0x101=x:3000 0x11=x:3082 1=b:0 2=b:0'):
            r = p.op('create %s %s 0x%x=%s' % (s, tmpl, A['TRUSTED'], tv))
            if r.get('rv') == '0x0' and bool_attr(p, s, r['h'], A['TRUSTED']):
                c.bad('an object was created with CKA_TRUSTED true outside an SO session (value %s)' % tv)
        r = p.op('genkey %s 0x1080 0=u:4 0x100=u:0x1f 0x161=u:16 1=b:0 2=b:0 0x%x=%s' % (s, A['TRUSTED'], tv))
        if r.get('rv') == '0x0' and bool_attr(p, s, r['h'], A['TRUSTED']):
            c.bad('C_GenerateKey produced a key with CKA_TRUSTED true outside an SO session (value %s)' % tv)
        p.op('findinit %s 3=x:' % s)
        fr = p.op('findseq %s 50' % s)
        p.op('findfinal %s' % s)
        # re-find the trusted key (its handle died with the SO logout? public handles survive; keep it simple)
        hw = p.op('create %s 0=u:4 0x100=u:0x1f 0x11=x:%s 1=b:0 2=b:0 0x106=b:1 0x107=b:1' % (s, wkey.hex())).get('h')
        bases = []
        for _ in range(rng.randint(4, 8)):
            if c.findings:
                break
            if rng.random() < 0.12:
                readonly_by_class(c, rng, s)
                continue
            if rng.random() < 0.15:
                k = make_rsa_priv(c, rng, s, hw)
            else:
                k = make_key(c, rng, s, hw, wkey, bases)
            if k is None:
                continue
            check_history(c, s, k, 'right after %s' % k.origin)
            check_reveal(c, rng, s, k)
            w = rng.random()
            if w < 0.35:
                try_weaken(c, rng, s, k)
            elif w < 0.55 and k.cls in (3, 4):
                try_wrap(c, rng, s, k, hw, hwt)
            elif w < 0.8:
                readonly_and_gates(c, rng, s, k)
            else:
                forbidden_on_creation(c, rng, s, k.h)
            if k.cls == 4:
                bases.append(k)
        # privacy downgrade by copy
        if not c.findings and rng.random() < 0.5:
            r = p.op('create %s 0=u:0 1=b:0 2=b:1 3=x:70726976 0x11=x:0102' % s)
            if r.get('rv') == '0x0' and p.rv('copy %s %s 2=b:0' % (s, r['h'])) == 0:
                c.bad('C_CopyObject turned a private object into a public one')
    finally:
        p.close()
    return {'i': idx, 'trace': p.trace, 'findings': c.findings, 'model_dis': [], 'model_evals': 0}
