#!/usr/bin/env python3
"""K-crypto: the built library against the independent references of tools/refcrypto.py (C10, C13).
Each sequence function returns a list of findings (message, trace index); a finding is a real failing
input: the library's output for a standard mechanism differs from the reference, a tampered input is
accepted, multi-part differs from single-part, a wrapped/derived key is not the specified one."""
import os, json, random, hashlib
import refcrypto as R
from p11i import P11

RSAKEYS = json.load(open(os.path.join(os.path.dirname(os.path.abspath(__file__)), 'rsakeys.json')))
CKA = dict(VALUE=0x11, VALUE_LEN=0x161, CHECK_VALUE=0x90, LOCAL=0x163, NEVER_EXTRACTABLE=0x164, ALWAYS_SENSITIVE=0x165, KEY_TYPE=0x100,
           SENSITIVE=0x103, EXTRACTABLE=0x162, CLASS=0, KEY_GEN_MECHANISM=0x166)


def be(n):
    return n.to_bytes((n.bit_length() + 7) // 8 or 1, 'big').hex()


def parts_of(rng, data, maxparts=5):
    if not data:
        return [b''] if rng.random() < 0.5 else []
    cuts = sorted(rng.sample(range(len(data) + 1), min(len(data) + 1, rng.randint(0, maxparts - 1))))
    out, prev = [], 0
    for c in cuts + [len(data)]:
        out.append(data[prev:c])
        prev = c
    if rng.random() < 0.3:
        out.insert(rng.randrange(len(out) + 1), b'')
    return out


def hx(b):
    return b.hex() if b else '.'


class PadModel:
    """the extracted Coq model of the padding / cutting / parity logic (ocaml/paddrv)"""

    def __init__(self, drv):
        import subprocess
        self.p = subprocess.Popen([drv], stdin=subprocess.PIPE, stdout=subprocess.PIPE, text=True, bufsize=1)

    def ask(self, line):
        self.p.stdin.write(line + '\n')
        self.p.stdin.flush()
        r = self.p.stdout.readline().strip()
        return None if r == '-' else bytes.fromhex('' if r == '.' else r)

    def ask_raw(self, line):
        self.p.stdin.write(line + '\n')
        self.p.stdin.flush()
        return self.p.stdout.readline().strip()

    def close(self):
        try:
            self.p.stdin.close(); self.p.wait(timeout=5)
        except Exception:
            self.p.kill()


class Ctx:
    def __init__(self, p, model=None):
        self.p = p
        self.findings = []
        self.model = model
        self.model_dis = []      # (what, trace index): the Coq model and the implementation / standard differ
        self.model_evals = 0

    def model_is(self, cmd, expected, what):
        if self.model is None:
            return
        self.model_evals += 1
        got = self.model.ask(cmd)
        if got != expected:
            self.model_dis.append(('%s: model %s, implementation/standard %s' % (what, None if got is None else got.hex(), None if expected is None else expected.hex()), len(self.p.trace) - 1))

    def bad(self, msg):
        self.findings.append((msg, len(self.p.trace) - 1))

    def out(self, line):
        """run an op with an output buffer (last word = announced size); a CKR_BUFFER_TOO_SMALL answer is
        retried once with the reported length; returns (rv, bytes)"""
        for _ in range(2):
            r = self.p.op(line)
            try:
                rv = int(r.get('rv', '-1'), 16)
            except ValueError:
                rv = -1
            if rv == 0x150 and 'len' in r and int(r['len']) < (1 << 20):
                line = ' '.join(line.split()[:-1] + [r['len']])
                continue
            break
        return rv, bytes.fromhex(r.get('out', '')) if rv == 0 else b''


def setup(p, rng):
    p.op('init')
    p.op('inittoken tfree 31323334 tok0')
    r = p.op('open t0 rw')
    return r.get('h')


def mk_aes(p, s, key, extra=''):
    r = p.op('create %s 0=u:4 0x100=u:0x1f 0x11=x:%s 0x104=b:1 0x105=b:1 0x108=b:1 0x10a=b:1 0x106=b:1 0x107=b:1 0x10c=b:1 1=b:0 2=b:0 0x103=b:0 0x162=b:1 %s' % (s, key.hex(), extra))
    return r.get('h')


def mk_generic(p, s, key, extra=''):
    r = p.op('create %s 0=u:4 0x100=u:0x10 0x11=x:%s 0x108=b:1 0x10a=b:1 0x10c=b:1 1=b:0 2=b:0 0x103=b:0 0x162=b:1 %s' % (s, hx(key), extra))
    return r.get('h')


def mk_rsa(p, s, k):
    n, e, d = int(k['n'], 16), int(k['e'], 16), int(k['d'], 16)
    pub = p.op('create %s 0=u:2 0x100=u:0 0x120=x:%s 0x122=x:%s 0x104=b:1 0x10a=b:1 0x106=b:1 1=b:0 2=b:0' % (s, be(n), be(e))).get('h')
    priv = p.op('create %s 0=u:3 0x100=u:0 0x120=x:%s 0x122=x:%s 0x123=x:%s 0x124=x:%s 0x125=x:%s 0x126=x:%s 0x127=x:%s 0x128=x:%s 0x105=b:1 0x108=b:1 0x107=b:1 1=b:0 2=b:0 0x103=b:0 0x162=b:1'
                % (s, be(n), be(e), be(d), be(int(k['p'], 16)), be(int(k['q'], 16)), be(int(k['dp'], 16)), be(int(k['dq'], 16)), be(int(k['qinv'], 16)))).get('h')
    return pub, priv


# =========================================================================================== C10
def ctr_limit_case(c, rng, s, hk, key):
    """AES-CTR with a narrow counter that is about to wrap: exactly the remaining blocks are allowed (and equal the
    reference), one byte more is refused - under every crypto backend"""
    p = c.p
    bits = rng.choice([8, 8, 12, 16])
    remaining = rng.randint(1, 4)
    pre = bytes(rng.randrange(256) for _ in range(16))
    cval = (int.from_bytes(pre, 'big') & ~((1 << bits) - 1)) | ((1 << bits) - remaining)
    cb = cval.to_bytes(16, 'big')
    mech = '0x1086:ctr:%d:%s' % (bits, cb.hex())
    pt = bytes(rng.randrange(256) for _ in range(remaining * 16))
    ref = R.ctr(key, cb, pt, bits)
    how = rng.choice(['single', 'multi'])
    if p.rv('encinit %s %s %s' % (s, mech, hk)) != 0:
        return
    if how == 'single':
        rv, out = c.out('enc %s %s %d' % (s, hx(pt), len(pt) + 32))
    else:
        out = b''
        rv = 0
        for part in parts_of(rng, pt):
            rv, o = c.out('encupd %s %s %d' % (s, hx(part), len(part) + 32))
            out += o
            if rv != 0:
                break
        if rv == 0:
            rv, o = c.out('encfin %s 64' % s)
            out += o
    if rv != 0 or out != ref:
        c.bad('ctr (%d counter bits, %d blocks left before the counter wraps): %s encryption of exactly that many blocks fails or differs from the reference (rv=0x%x)' % (bits, remaining, how, rv))
        return
    if rv == 0 and how == 'multi':
        pass
    # one block too many must be refused
    if p.rv('encinit %s %s %s' % (s, mech, hk)) == 0:
        rv, out = c.out('enc %s %s %d' % (s, hx(pt + b'\x00'), len(pt) + 48))
        if rv == 0:
            c.bad('ctr (%d counter bits): encrypting beyond the counter range is accepted' % bits)
        else:
            p.op('encfin %s 64' % s)
    if p.rv('decinit %s %s %s' % (s, mech, hk)) == 0:
        rv, o = c.out('dec %s %s %d' % (s, hx(ref), len(ref) + 32))
        if rv != 0 or o != pt:
            c.bad('ctr (%d counter bits, %d blocks left): decryption of exactly that many blocks fails or differs (rv=0x%x)' % (bits, remaining, rv))


def sym_case(c, rng, s, hk, key):
    p = c.p
    if rng.random() < 0.12:
        return ctr_limit_case(c, rng, s, hk, key)
    mode = rng.choice(['ecb', 'cbc', 'cbcpad', 'ctr', 'gcm'])
    L = rng.choice([0, 1, 15, 16, 17, 31, 32, 33, 48, 64, rng.randint(0, 70)])
    if mode in ('ecb', 'cbc'):
        L -= L % 16
    pt = bytes(rng.randrange(256) for _ in range(L))
    iv = bytes(rng.randrange(256) for _ in range(16))
    aad = bytes(rng.randrange(256) for _ in range(rng.choice([0, 0, 5, 16, 20])))
    tagb = rng.choice([16, 16, 12, 8, 4])
    givlen = rng.choice([12, 12, 12, 8, 16, 1])
    if mode == 'ecb':
        mech, ref = '0x1081', R.ecb_enc(key, pt)
    elif mode == 'cbc':
        mech, ref = '0x1082:x:%s' % iv.hex(), R.cbc_enc(key, iv, pt)
    elif mode == 'cbcpad':
        mech, ref = '0x1085:x:%s' % iv.hex(), R.cbc_enc(key, iv, R.pkcs7_pad(pt))
    elif mode == 'ctr':
        bits = rng.choice([128, 128, 64, 32, 16])
        # keep the counter away from its wrap-around (that is C12's counter budget)
        cb = iv[:16 - bits // 8] + b'\x00' * (bits // 8)
        mech, ref = '0x1086:ctr:%d:%s' % (bits, cb.hex()), R.ctr(key, cb, pt, bits)
    else:
        ct, tag = R.gcm_encrypt(key, iv[:givlen], aad, pt, tagb)
        mech, ref = '0x1087:gcm:%s:%s:%d' % (iv[:givlen].hex(), aad.hex(), tagb * 8), ct + tag
    # single part
    if p.rv('encinit %s %s %s' % (s, mech, hk)) != 0:
        return
    rv, out = c.out('enc %s %s %d' % (s, hx(pt), len(pt) + 48))
    if rv != 0 or out != ref:
        c.bad('%s encryption of %d bytes differs from the reference (rv=0x%x)' % (mode, L, rv))
        return
    # multi part
    if p.rv('encinit %s %s %s' % (s, mech, hk)) == 0:
        acc = b''
        for part in parts_of(rng, pt):
            rv, o = c.out('encupd %s %s %d' % (s, hx(part), len(part) + 32))
            acc += o
        rv, o = c.out('encfin %s 64' % s)
        acc += o
        if acc != ref:
            c.bad('%s multi-part encryption differs from single-part' % mode)
    # decrypt what the reference produced, in parts
    if p.rv('decinit %s %s %s' % (s, mech, hk)) == 0:
        acc = b''
        ok = True
        for part in parts_of(rng, ref):
            rv, o = c.out('decupd %s %s %d' % (s, hx(part), len(part) + 32))
            ok = ok and rv == 0
            acc += o
        rv, o = c.out('decfin %s %d' % (s, len(ref) + 32))
        acc += o
        if not ok or rv != 0 or acc != pt:
            c.bad('%s multi-part decryption of the reference ciphertext gives a wrong plaintext (rv=0x%x)' % (mode, rv))
    if p.rv('decinit %s %s %s' % (s, mech, hk)) == 0:
        rv, o = c.out('dec %s %s %d' % (s, hx(ref), len(ref) + 32))
        if rv != 0 or o != pt:
            c.bad('%s single-part decryption of the reference ciphertext gives a wrong plaintext (rv=0x%x)' % (mode, rv))
    # tamper (authenticated mode): any flipped bit of ciphertext, tag, IV or AAD must be refused
    if mode == 'gcm':
        which = rng.choice(['ct', 'tag', 'iv', 'aad'])
        t_ref, t_iv, t_aad = bytearray(ref), bytearray(iv[:givlen]), bytearray(aad)
        if which == 'ct' and L > 0:
            t_ref[rng.randrange(L)] ^= 1 << rng.randrange(8)
        elif which == 'tag' or (which == 'ct' and L == 0):
            t_ref[L + rng.randrange(tagb)] ^= 1 << rng.randrange(8)
        elif which == 'iv':
            t_iv[rng.randrange(len(t_iv))] ^= 1 << rng.randrange(8)
        elif which == 'aad':
            if t_aad:
                t_aad[rng.randrange(len(t_aad))] ^= 1 << rng.randrange(8)
            else:
                t_aad = bytearray(b'\x01')
        m2 = '0x1087:gcm:%s:%s:%d' % (bytes(t_iv).hex(), bytes(t_aad).hex(), tagb * 8)
        if p.rv('decinit %s %s %s' % (s, m2, hk)) == 0:
            rv, o = c.out('dec %s %s %d' % (s, hx(bytes(t_ref)), len(ref) + 32))
            if rv == 0:
                c.bad('GCM decryption accepted a message with a flipped bit in the %s' % which)


def mac_case(c, rng, s, hgen, gkey, haes, akey):
    p = c.p
    msg = bytes(rng.randrange(256) for _ in range(rng.choice([0, 1, 16, 55, 56, 64, 65, 100])))
    if rng.random() < 0.3:
        mech, ref, hk = 0x108A, R.cmac(akey, msg), haes
    else:
        mech = rng.choice(sorted(R.HMACS))
        ref, hk = R.hmac(mech, gkey, msg), hgen
    if p.rv('signinit %s 0x%x %s' % (s, mech, hk)) != 0:
        return
    if rng.random() < 0.5:
        rv, out = c.out('sign %s %s 80' % (s, hx(msg)))
    else:
        for part in parts_of(rng, msg):
            p.op('signupd %s %s' % (s, hx(part)))
        rv, out = c.out('signfin %s 80' % s)
    if rv != 0 or out != ref:
        c.bad('MAC 0x%x of a %d-byte message differs from the reference (rv=0x%x)' % (mech, len(msg), rv))
        return
    # verification: exact MAC accepted; flipped, truncated, extended, empty refused
    for kind in ('good', rng.choice(['flip', 'trunc', 'ext', 'empty', 'msgflip'])):
        sig, m2 = bytearray(ref), bytearray(msg)
        if kind == 'flip':
            sig[rng.randrange(len(sig))] ^= 1 << rng.randrange(8)
        elif kind == 'trunc':
            sig = sig[:rng.randrange(0, len(sig))]
        elif kind == 'ext':
            sig = sig + b'\x00'
        elif kind == 'empty':
            sig = bytearray()
        elif kind == 'msgflip':
            if m2:
                m2[rng.randrange(len(m2))] ^= 1
            else:
                m2 = bytearray(b'\x00')
        if p.rv('verifyinit %s 0x%x %s' % (s, mech, hk)) != 0:
            return
        if rng.random() < 0.5:
            rv = p.rv('verify %s %s %s' % (s, hx(bytes(m2)), hx(bytes(sig))))
        else:
            for part in parts_of(rng, bytes(m2)):
                p.op('verifyupd %s %s' % (s, hx(part)))
            rv = p.rv('verifyfin %s %s' % (s, hx(bytes(sig))))
        if kind == 'good' and rv != 0:
            c.bad('a correct MAC 0x%x was refused (rv=0x%x)' % (mech, rv))
        if kind != 'good' and rv == 0:
            c.bad('MAC verification 0x%x accepted a %s MAC / message' % (mech, {'flip': 'bit-flipped', 'trunc': 'truncated', 'ext': 'extended', 'empty': 'zero-length', 'msgflip': 'tampered'}[kind]))


def digest_case(c, rng, s):
    p = c.p
    mech = rng.choice(sorted(R.DIGESTS))
    msg = bytes(rng.randrange(256) for _ in range(rng.choice([0, 1, 55, 56, 63, 64, 65, 119, 128, 200])))
    ref = R.digest(mech, msg)
    if p.rv('digestinit %s 0x%x' % (s, mech)) != 0:
        return
    if rng.random() < 0.4 and msg:
        rv, out = c.out('digest %s %s 80' % (s, hx(msg)))
    else:
        for part in parts_of(rng, msg):
            if part or rng.random() < 0.5:
                p.op('digestupd %s %s' % (s, part.hex() if part else '00' if False else hx(part)))
        rv, out = c.out('digestfin %s 80' % s)
    if rv != 0 or out != ref:
        c.bad('digest 0x%x of a %d-byte message differs from the reference' % (mech, len(msg)))


DIGESTINFO = {'sha1': bytes.fromhex('3021300906052b0e03021a05000414'), 'sha256': bytes.fromhex('3031300d060960864801650304020105000420'),
              'sha384': bytes.fromhex('3041300d060960864801650304020205000430'), 'sha512': bytes.fromhex('3051300d060960864801650304020305000440')}


def rsa_case(c, rng, s, pub, priv, k):
    p = c.p
    n, e, d = int(k['n'], 16), int(k['e'], 16), int(k['d'], 16)
    klen = (n.bit_length() + 7) // 8
    msg = bytes(rng.randrange(256) for _ in range(rng.choice([0, 1, 20, 32, 60])))
    what = rng.choice(['pkcs_sign', 'hash_sign', 'verify_ref', 'oaep', 'raw', 'pss', 'pkcs_enc'])
    if what == 'pkcs_sign':
        if p.rv('signinit %s 0x1 %s' % (s, priv)) != 0:
            return
        rv, sig = c.out('sign %s %s %d' % (s, hx(msg), klen))
        em = R.pkcs1_v15_sig_em(msg, klen)
        if rv != 0 or R.rsa_public(n, e, sig) != em:
            c.bad('CKM_RSA_PKCS signature does not verify under the reference (rv=0x%x)' % rv)
        elif sig != pow(int.from_bytes(em, 'big'), d, n).to_bytes(klen, 'big'):
            c.bad('CKM_RSA_PKCS signature is not the deterministic PKCS#1 v1.5 value')
    elif what == 'hash_sign':
        hname, mech = rng.choice([('sha1', 0x6), ('sha256', 0x40), ('sha384', 0x41), ('sha512', 0x42)])
        if p.rv('signinit %s 0x%x %s' % (s, mech, priv)) != 0:
            return
        if rng.random() < 0.5:
            rv, sig = c.out('sign %s %s %d' % (s, hx(msg), klen))
        else:
            for part in parts_of(rng, msg):
                p.op('signupd %s %s' % (s, hx(part)))
            rv, sig = c.out('signfin %s %d' % (s, klen))
        em = R.pkcs1_v15_sig_em(DIGESTINFO[hname] + hashlib.new(hname, msg).digest(), klen)
        if rv != 0 or R.rsa_public(n, e, sig) != em:
            c.bad('%s-RSA-PKCS signature does not verify under the reference (rv=0x%x)' % (hname, rv))
    elif what == 'verify_ref':
        hname, mech = rng.choice([('sha256', 0x40), ('sha1', 0x6)])
        em = R.pkcs1_v15_sig_em(DIGESTINFO[hname] + hashlib.new(hname, msg).digest(), klen)
        sig = bytearray(pow(int.from_bytes(em, 'big'), d, n).to_bytes(klen, 'big'))
        m2 = bytearray(msg)
        kind = rng.choice(['good', 'sigflip', 'msgflip', 'short'])
        if kind == 'sigflip':
            sig[rng.randrange(klen)] ^= 1 << rng.randrange(8)
        elif kind == 'msgflip':
            if m2:
                m2[rng.randrange(len(m2))] ^= 1
            else:
                m2 = bytearray(b'x')
        elif kind == 'short':
            sig = sig[:-1]
        if p.rv('verifyinit %s 0x%x %s' % (s, mech, pub)) != 0:
            return
        rv = p.rv('verify %s %s %s' % (s, hx(bytes(m2)), hx(bytes(sig))))
        if kind == 'good' and rv != 0:
            c.bad('a reference %s-RSA-PKCS signature was refused (rv=0x%x)' % (hname, rv))
        if kind != 'good' and rv == 0:
            c.bad('RSA verification accepted a %s signature' % kind)
    elif what == 'oaep':
        label = bytes(rng.randrange(256) for _ in range(rng.choice([0, 0, 5])))
        if len(msg) > klen - 42:
            msg = msg[:klen - 42]
        mech = '0x9:oaep:0x220:1:1:%s' % label.hex()
        if p.rv('encinit %s %s %s' % (s, mech, pub)) != 0:
            return
        rv, ct = c.out('enc %s %s %d' % (s, hx(msg), klen))
        if rv != 0:
            return
        em = pow(int.from_bytes(ct, 'big'), d, n).to_bytes(klen, 'big')
        if R.oaep_decode(em, klen, label) != msg:
            c.bad('RSA-OAEP ciphertext does not decrypt to the message under the reference')
    elif what == 'pkcs_enc':
        if len(msg) > klen - 11:
            msg = msg[:klen - 11]
        if p.rv('encinit %s 0x1 %s' % (s, pub)) != 0:
            return
        rv, ct = c.out('enc %s %s %d' % (s, hx(msg), klen))
        if rv != 0:
            return
        em = pow(int.from_bytes(ct, 'big'), d, n).to_bytes(klen, 'big')
        ok = em[:2] == b'\x00\x02' and b'\x00' in em[2:] and em[em.index(b'\x00', 2) + 1:] == msg and em.index(b'\x00', 2) >= 10
        if not ok:
            c.bad('RSA-PKCS#1 v1.5 ciphertext does not decrypt to the message under the reference')
        if p.rv('decinit %s 0x1 %s' % (s, priv)) == 0:
            rv, o = c.out('dec %s %s %d' % (s, hx(ct), klen))
            if rv != 0 or o != msg:
                c.bad('RSA-PKCS decryption does not return the encrypted message')
    elif what == 'raw':
        data = bytes(rng.randrange(256) for _ in range(rng.choice([klen, klen, klen - 1, 1, 20])))
        if int.from_bytes(data, 'big') >= n:
            data = b'\x00' + data[1:]
        if p.rv('encinit %s 0x3 %s' % (s, pub)) != 0:
            return
        rv, ct = c.out('enc %s %s %d' % (s, hx(data), klen))
        if rv == 0 and ct != pow(int.from_bytes(data, 'big'), e, n).to_bytes(klen, 'big'):
            c.bad('raw RSA (CKM_RSA_X_509) result is not data^e mod n')
    elif what == 'pss':
        slen = rng.choice([0, 20, 32])
        if p.rv('signinit %s 0xe:pss:0x220:1:%d %s' % (s, slen, priv)) != 0:        # CKM_SHA1_RSA_PKCS_PSS
            return
        rv, sig = c.out('sign %s %s %d' % (s, hx(msg), klen))
        if rv != 0:
            return
        em = R.rsa_public(n, e, sig)
        if not R.pss_verify(em, hashlib.sha1(msg).digest(), n.bit_length() - 1, slen):
            c.bad('SHA1-RSA-PSS signature does not verify under the reference (salt %d)' % slen)


# RFC 2409 Oakley group 2 (1024-bit MODP)
DH_P = int('FFFFFFFFFFFFFFFFC90FDAA22168C234C4C6628B80DC1CD129024E088A67CC74020BBEA63B139B22514A08798E3404DD'
           'EF9519B3CD3A431B302B0A6DF25F14374FE1356D6D51C245E485B576625E7EC6F44C42E9A637ED6B0BFF5CB6F406B7ED'
           'EE386BFB5A899FA5AE9F24117C4B1FE649286651ECE65381FFFFFFFFFFFFFFFF', 16)


def dh_case(c, rng, s):
    """CKM_DH_PKCS_DERIVE against integer arithmetic, aimed at shared secrets with leading zero octets"""
    p = c.p
    x = rng.getrandbits(160) | 1
    r = p.op('create %s 0=u:3 0x100=u:2 0x130=x:%s 0x132=x:02 0x11=x:%s 0x10c=b:1 1=b:0 2=b:0 0x103=b:0 0x162=b:1' % (s, be(DH_P), be(x)))
    if r.get('rv') != '0x0':
        return
    hpriv = r['h']
    want_zero = rng.random() < 0.6
    for _ in range(2000):
        y = pow(2, rng.getrandbits(64) | 1, DH_P)
        secret = pow(y, x, DH_P).to_bytes(128, 'big')
        if (secret[0] == 0) == want_zero:
            break
    tlen = rng.choice([128, 128, 32, 16, 64])
    r = p.op('derive %s 0x21:x:%s %s 0=u:4 0x100=u:0x10 0x161=u:%d 1=b:0 2=b:0 0x103=b:0 0x162=b:1' % (s, y.to_bytes(128, 'big').hex(), hpriv, tlen))
    if r.get('rv') != '0x0':
        return
    v = p.attr(s, r['h'], CKA['VALUE'])
    # PKCS#11 (CKM_DH_PKCS_DERIVE): "The truncation removes bytes from the leading end of the secret value": the key is
    # the TRAILING tlen bytes of the shared secret
    if v is None or v != secret[len(secret) - tlen:]:
        c.bad('CKM_DH_PKCS_DERIVE: derived value is not the shared secret y^x mod p (leading byte 0x%02x, %d bytes requested)' % (secret[0], tlen))


def ecdh_case(c, rng, s):
    """CKM_ECDH1_DERIVE on P-256 against integer arithmetic (refcrypto.ecdh_p256, validated against the openssl CLI) and
    against the extracted model of the length rules (coq/Crypto/Derive.v: derive_len_lax, agree_value): which
    (key type, CKA_VALUE_LEN) pairs are accepted, and which bytes of the shared secret become the key"""
    p = c.p
    d = rng.randrange(1, R.P256_N)
    r = p.op('create %s 0=u:3 0x100=u:3 0x180=x:06082a8648ce3d030107 0x11=x:%s 0x10c=b:1 1=b:0 2=b:0 0x103=b:0 0x162=b:1' % (s, d.to_bytes(32, 'big').hex()))
    if r.get('rv') != '0x0':
        return
    hpriv = r['h']
    for _ in range(rng.randint(2, 4)):
        e = rng.randrange(1, R.P256_N)
        Q = R.p256_mul(e, R.P256_G)
        secret = R.ecdh_p256(d, Q)
        kt = rng.choice([0x10, 0x10, 0x1f, 0x1f, 0x15, 0x14])
        req = rng.choice({0x10: [None, 0, 32, 20, 1, 31, 33], 0x1f: [None, 0, 16, 24, 32, 8, 17, 33], 0x15: [None, None, 24, 16], 0x14: [None, None, 16, 24]}[kt])
        pt = R.p256_point_bytes(Q)
        if rng.random() < 0.3:
            pt = b'\x04\x41' + pt          # DER OCTET STRING around the point is accepted too
        vl = '' if req is None else ' 0x161=u:%d' % req
        r = p.op('derive %s 0x1050:ecdh:1:%s %s 0=u:4 0x100=u:0x%x%s 1=b:0 2=b:0 0x103=b:0 0x162=b:1' % (s, pt.hex(), hpriv, kt, vl))
        rq = 0 if req is None else req
        exp_len = None
        if kt in (0x14, 0x15) and req is not None and r.get('rv') == '0x12':
            # a DES key object has no CKA_VALUE_LEN: the template is refused later by the object layer (C_CreateObject
            # rules, outside the length model) even where deriveECDH's own switch accepts the number
            continue
        # the standard directly (no model): a combination PKCS#11 specifies must be accepted, and the value must be cut
        # from the shared secret
        std_ok = (kt == 0x10 and req is not None and 1 <= req <= 32) or (kt == 0x1f and req in (16, 24, 32)) or (kt in (0x14, 0x15) and req is None)
        if std_ok and r.get('rv') != '0x0':
            c.bad('CKM_ECDH1_DERIVE refuses a specified key: key type 0x%x CKA_VALUE_LEN %s answers %s' % (kt, req, r.get('rv')))
            continue
        if r.get('rv') == '0x0':
            v0 = p.attr(s, r['h'], CKA['VALUE'])
            n0 = {0x14: 16, 0x15: 24}.get(kt, rq)
            if v0 is not None and kt in (0x10, 0x1f) and (n0 and len(v0) != n0 or v0 != secret[len(secret) - len(v0):]):
                c.bad('CKM_ECDH1_DERIVE: key type 0x%x CKA_VALUE_LEN %s: derived value %s is not cut from the shared secret %s' % (kt, req, v0.hex(), secret.hex()))
                continue
        if c.model is not None:
            c.model_evals += 1
            ans = c.model.ask_raw('lenlax %d %d' % (kt, rq)).split()
            if ans[0] == 'rv':
                if r.get('rv') != '0x%x' % int(ans[1]):
                    c.model_dis.append(('CKM_ECDH1_DERIVE key type 0x%x CKA_VALUE_LEN %s: model refuses with 0x%x, implementation answers %s' % (kt, req, int(ans[1]), r.get('rv')), len(p.trace) - 1))
                continue
            exp_len = int(ans[1])
            expv = c.model.ask('agree %d %d %s' % (kt, exp_len, secret.hex()))
            if expv is None:
                if r.get('rv') == '0x0':
                    c.model_dis.append(('CKM_ECDH1_DERIVE key type 0x%x CKA_VALUE_LEN %s: the model has no value (secret too short), implementation answers CKR_OK' % (kt, req), len(p.trace) - 1))
                continue
            if r.get('rv') != '0x0':
                c.model_dis.append(('CKM_ECDH1_DERIVE key type 0x%x CKA_VALUE_LEN %s: model derives %d bytes, implementation answers %s' % (kt, req, len(expv), r.get('rv')), len(p.trace) - 1))
                continue
            v = p.attr(s, r['h'], CKA['VALUE'])
            if v != expv:
                c.model_dis.append(('CKM_ECDH1_DERIVE key type 0x%x CKA_VALUE_LEN %s: value %s, model (from the reference secret) %s' % (kt, req, None if v is None else v.hex(), expv.hex()), len(p.trace) - 1))
            continue
        # without the model: the standard directly
        if r.get('rv') != '0x0':
            continue
        v = p.attr(s, r['h'], CKA['VALUE'])
        if v is None or (kt in (0x10, 0x1f) and v != secret[len(secret) - len(v):]) or (kt == 0x1f and len(v) not in (16, 24, 32)) or \
           (kt == 0x10 and len(v) != (rq or 32)) or (kt == 0x15 and len(v) != 24) or (kt == 0x14 and len(v) != 16):
            c.bad('CKM_ECDH1_DERIVE: key type 0x%x CKA_VALUE_LEN %s: derived value %s is not cut from the shared secret %s' % (kt, req, None if v is None else v.hex(), secret.hex()))


def des3_case(c, rng, s):
    """CKM_DES3_ECB / CBC / CBC_PAD with two-key and three-key triple DES against a table-driven reference (refcrypto.des3_*,
    validated against the openssl CLI): K3 must matter"""
    p = c.p
    klen = rng.choice([24, 24, 16])
    key = bytes(rng.randrange(256) for _ in range(klen))
    r = p.op('create %s 0=u:4 0x100=u:%s 0x11=x:%s 0x104=b:1 0x105=b:1 1=b:0 2=b:0 0x103=b:0 0x162=b:1' % (s, '0x15' if klen == 24 else '0x14', key.hex()))
    if r.get('rv') != '0x0':
        return
    hk = r['h']
    kv = p.attr(s, hk, CKA['VALUE'])
    if kv is not None and len(kv) == klen:
        key = kv                  # the library may have adjusted the parity bits; they do not enter the cipher
    mode = rng.choice(['ecb', 'cbc', 'cbcpad'])
    L = rng.choice([8, 16, 24, 40, rng.randint(0, 50)])
    if mode != 'cbcpad':
        L -= L % 8
    pt = bytes(rng.randrange(256) for _ in range(L))
    iv = bytes(rng.randrange(256) for _ in range(8))
    if mode == 'ecb':
        mech, ref = '0x132', R.des3_ecb(key, pt)
    elif mode == 'cbc':
        mech, ref = '0x133:x:%s' % iv.hex(), R.des3_cbc_enc(key, iv, pt)
    else:
        mech, ref = '0x136:x:%s' % iv.hex(), R.des3_cbc_enc(key, iv, R.pkcs7_pad(pt, 8))
    if p.rv('encinit %s %s %s' % (s, mech, hk)) != 0:
        return
    rv, out = c.out('enc %s %s %d' % (s, hx(pt), len(pt) + 24))
    if rv != 0 or out != ref:
        c.bad('DES3 %s encryption of %d bytes under a %d-byte key differs from the reference (rv=0x%x)' % (mode, L, klen, rv))
        return
    if p.rv('decinit %s %s %s' % (s, mech, hk)) == 0:
        rv, o = c.out('dec %s %s %d' % (s, hx(ref), len(ref) + 24))
        if rv != 0 or o != pt:
            c.bad('DES3 %s decryption of the reference ciphertext under a %d-byte key gives a wrong plaintext (rv=0x%x)' % (mode, klen, rv))


def seq_asym_len(lib, p11drv, seed, idx):
    """C12 for the asymmetric mechanisms (no model: the property read off the trace): a length query for C_Sign / C_Decrypt /
    C_Encrypt with an RSA key reports the modulus size in bytes - whatever leading zero octets the imported CKA_MODULUS
    carried -, leaves the operation active, and a buffer of exactly the reported size completes the call"""
    rng = random.Random(seed * 86028121 + idx)
    p = P11(p11drv, lib)
    c = Ctx(p)
    try:
        s = setup(p, rng)
        k = RSAKEYS[rng.choice([0, 1, 2])]
        n, e, d = int(k['n'], 16), int(k['e'], 16), int(k['d'], 16)
        klen = (n.bit_length() + 7) // 8
        lead = rng.choice(['', '', '00', '0000'])
        priv = p.op('create %s 0=u:3 0x100=u:0 0x120=x:%s 0x122=x:%s 0x123=x:%s 0x124=x:%s 0x125=x:%s 0x126=x:%s 0x127=x:%s 0x128=x:%s 0x105=b:1 0x108=b:1 0x107=b:1 1=b:0 2=b:0 0x103=b:0 0x162=b:1'
                    % (s, lead + be(n), be(e), be(d), be(int(k['p'], 16)), be(int(k['q'], 16)), be(int(k['dp'], 16)), be(int(k['dq'], 16)), be(int(k['qinv'], 16)))).get('h')
        pub = p.op('create %s 0=u:2 0x100=u:0 0x120=x:%s 0x122=x:%s 0x104=b:1 0x10a=b:1 0x106=b:1 1=b:0 2=b:0' % (s, lead + be(n), be(e))).get('h')
        if not priv or not pub:
            return {'i': idx, 'trace': p.trace, 'findings': [], 'model_dis': [], 'model_evals': 0}
        for _ in range(rng.randint(3, 6)):
            kind = rng.choice(['sign', 'sign', 'signfin', 'dec', 'enc'])
            mech = {'sign': rng.choice(['0x1', '0x40', '0x3']), 'signfin': rng.choice(['0x40', '0x6']), 'dec': '0x1', 'enc': '0x1'}[kind]
            data = bytes(rng.randrange(256) for _ in range(rng.randint(1, 40)))
            if mech == '0x3':
                data = b'\x00' + bytes(rng.randrange(256) for _ in range(klen - 1))
            if kind == 'dec':
                # a ciphertext made by the library itself
                if p.rv('encinit %s 0x1 %s' % (s, pub)) != 0:
                    continue
                rv, data = c.out('enc %s %s %d' % (s, hx(data), klen + 8))
                if rv != 0:
                    continue
            init = {'sign': 'signinit', 'signfin': 'signinit', 'dec': 'decinit', 'enc': 'encinit'}[kind]
            if p.rv('%s %s %s %s' % (init, s, mech, pub if kind == 'enc' else priv)) != 0:
                continue
            if kind == 'signfin':
                if p.rv('signupd %s %s' % (s, hx(data))) != 0:
                    continue
                call = 'signfin %s' % s
            else:
                call = '%s %s %s' % (kind, s, hx(data))
            r = p.op(call + ' null')
            if r.get('rv') != '0x0' or 'len' not in r:
                c.bad('%s with mechanism %s: the length query answers %s' % (kind, mech, r.get('rv')))
                break
            need = int(r['len'])
            if need != klen:
                c.bad('%s with mechanism %s on a %d-byte RSA key (modulus imported with %d leading zero octets): the length query reports %d' % (kind, mech, klen, len(lead) // 2, need))
                break
            if need > 0 and rng.random() < 0.5:
                r = p.op(call + ' %d' % (need - 1))
                if r.get('rv') != '0x150' or int(r.get('len', -1)) != need:
                    c.bad('%s with mechanism %s: a buffer one byte short is answered %s / length %s (expected CKR_BUFFER_TOO_SMALL and %d)' % (kind, mech, r.get('rv'), r.get('len'), need))
                    break
            r = p.op(call + ' %d' % need)
            if r.get('rv') != '0x0':
                c.bad('%s with mechanism %s: a buffer of exactly the reported length %d is answered %s' % (kind, mech, need, r.get('rv')))
                break
            if r.get('ovw') == '1':
                c.bad('%s with mechanism %s wrote beyond the announced length' % (kind, mech))
                break
    finally:
        p.close()
    return {'i': idx, 'trace': p.trace, 'findings': c.findings, 'model_dis': [], 'model_evals': 0}


def x25519_case(c, rng, s):
    """CKM_ECDH1_DERIVE with an X25519 base key (generated by the library, value read back) against RFC 7748 arithmetic
    (refcrypto.x25519, validated against the RFC vector and the openssl CLI): value and cutting of the derived key"""
    p = c.p
    r = p.op('genpair %s 0x1055 0x180=x:130a63757276653235353139 1=b:0 2=b:0 -- 1=b:0 2=b:0 0x103=b:0 0x162=b:1 0x10c=b:1' % s)
    if r.get('rv') != '0x0':
        return
    hpub, hpriv = r.get('pub'), r.get('priv')
    kv = p.attr(s, hpriv, CKA['VALUE'])
    pt = p.attr(s, hpub, 0x181)
    if kv is None or pt is None:
        return
    if len(kv) == 34 and kv[:2] == b'\x04\x20':
        kv = kv[2:]
    if len(pt) == 34 and pt[:2] == b'\x04\x20':
        pt = pt[2:]
    if len(kv) != 32 or len(pt) != 32 or R.x25519(kv, R.X25519_BASE) != pt:
        return                    # the private value is not stored in a form this reference understands: nothing to compare
    for _ in range(rng.randint(2, 3)):
        e = bytes(rng.randrange(256) for _ in range(32))
        peer = R.x25519(e, R.X25519_BASE)
        secret = R.x25519(kv, peer)
        kt = rng.choice([0x10, 0x10, 0x1f, 0x15])
        req = rng.choice({0x10: [None, 32, 20, 1, 31], 0x1f: [None, 16, 24, 32], 0x15: [None]}[kt])
        data = peer if rng.random() < 0.6 else b'\x04\x20' + peer
        vl = '' if req is None else ' 0x161=u:%d' % req
        r = p.op('derive %s 0x1050:ecdh:1:%s %s 0=u:4 0x100=u:0x%x%s 1=b:0 2=b:0 0x103=b:0 0x162=b:1' % (s, data.hex(), hpriv, kt, vl))
        if r.get('rv') != '0x0':
            if (kt == 0x10 and req is not None) or (kt == 0x1f and req is not None):
                c.bad('CKM_ECDH1_DERIVE with an X25519 key refuses a specified key: key type 0x%x CKA_VALUE_LEN %s answers %s' % (kt, req, r.get('rv')))
            continue
        v = p.attr(s, r['h'], CKA['VALUE'])
        n = {0x15: 24}.get(kt, req if req else (32 if kt != 0x15 else 24))
        exp = secret[len(secret) - n:]
        if kt == 0x15 and v is not None:
            exp = bytes((b & 0xfe) for b in exp); v = bytes((b & 0xfe) for b in v)      # DES parity bits are adjusted, not compared here
        if v != exp:
            c.bad('CKM_ECDH1_DERIVE with an X25519 key: key type 0x%x CKA_VALUE_LEN %s: the value %s is not the trailing %d bytes of the shared secret %s' % (kt, req, None if v is None else v.hex(), n, secret.hex()))
            return


def seq_c10(lib, p11drv, seed, idx):
    rng = random.Random(seed * 104729 + idx)
    p = P11(p11drv, lib)
    c = Ctx(p)
    try:
        s = setup(p, rng)
        akey = bytes(rng.randrange(256) for _ in range(rng.choice([16, 24, 32])))
        gkey = bytes(rng.randrange(256) for _ in range(rng.choice([32, 48, 64, 100])))
        haes = mk_aes(p, s, akey)
        hgen = mk_generic(p, s, gkey)
        k = RSAKEYS[rng.choice([0, 0, 1, 2])]
        pub, priv = mk_rsa(p, s, k)
        for _ in range(rng.randint(6, 12)):
            w = rng.random()
            if w < 0.4:
                sym_case(c, rng, s, haes, akey)
            elif w < 0.6:
                mac_case(c, rng, s, hgen, gkey, haes, akey)
            elif w < 0.72:
                digest_case(c, rng, s)
            elif w < 0.76:
                dh_case(c, rng, s)
            elif w < 0.80:
                ecdh_case(c, rng, s)
            elif w < 0.85:
                des3_case(c, rng, s)
            elif w < 0.89:
                x25519_case(c, rng, s)
            else:
                rsa_case(c, rng, s, pub, priv, k)
            if c.findings:
                break
    finally:
        p.close()
    return {'i': idx, 'trace': p.trace, 'findings': c.findings}


# =========================================================================================== C13
def check_new_key(c, s, h, expect_value, what, kcv=True, keytype=None, history=None):
    p = c.p
    v = p.attr(s, h, CKA['VALUE'])
    if v != expect_value:
        c.bad('%s: the key value is %s, specified %s' % (what, None if v is None else v.hex(), expect_value.hex()))
        return
    if history is not None:
        for a, name in ((CKA['LOCAL'], 'CKA_LOCAL'), (CKA['NEVER_EXTRACTABLE'], 'CKA_NEVER_EXTRACTABLE'), (CKA['ALWAYS_SENSITIVE'], 'CKA_ALWAYS_SENSITIVE')):
            b = p.attr(s, h, a)
            if b is not None and b != bytes([history]):
                c.bad('%s: %s is %s' % (what, name, b.hex()))
    kt = p.attr(s, h, CKA['KEY_TYPE'])
    if keytype is not None and kt is not None and int.from_bytes(kt, 'little') != keytype:
        c.bad('%s: key type 0x%x, template said 0x%x' % (what, int.from_bytes(kt, 'little'), keytype))
    if kcv:
        cv = p.attr(s, h, CKA['CHECK_VALUE'])
        if cv:
            ktv = int.from_bytes(kt, 'little') if kt else None
            exp = R.kcv_aes(expect_value) if ktv == 0x1f else (R.kcv_generic(expect_value) if ktv == 0x10 else None)
            if exp is not None and cv != exp:
                c.bad('%s: CKA_CHECK_VALUE %s is not the standard check value %s' % (what, cv.hex(), exp.hex()))


def wrap_case(c, rng, s, hw, wkey):
    p = c.p
    mech = rng.choice(['kw', 'kwp', 'cbcpad'])
    L = rng.choice([1, 7, 8, 15, 16, 17, 24, 31, 32, 33, 40, 64, 72, rng.randint(1, 72)])
    if mech == 'kw' and rng.random() < 0.7:
        L = max(16, L - L % 8)
    val = bytes(rng.randrange(256) for _ in range(L))
    ktype = 0x1f if L in (16, 24, 32) and rng.random() < 0.5 else 0x10
    hk = (mk_aes if ktype == 0x1f else mk_generic)(p, s, val)
    if not hk:
        return
    iv = bytes(rng.randrange(256) for _ in range(16))
    if mech == 'kw':
        m = '0x2109'
        padded = val + b'\x00' * (-L % 8)
        ref = R.kw_wrap(wkey, padded) if len(padded) >= 16 else None
        expect = padded
    elif mech == 'kwp':
        m, ref, expect = '0x210a', R.kwp_wrap(wkey, val), val
    else:
        m, ref, expect = '0x1085:x:%s' % iv.hex(), R.cbc_enc(wkey, iv, R.pkcs7_pad(val)), val
    rv, blob = c.out('wrap %s %s %s %s %d' % (s, m, hw, hk, L + 64))
    if ref is None:
        if rv == 0:
            c.bad('C_WrapKey(%s) accepted a %d-byte key (shorter than the mechanism allows)' % (mech, L))
        return
    if rv != 0:
        if not (mech == 'kw' and L % 8):
            c.bad('C_WrapKey(%s) of a %d-byte key failed (rv=0x%x)' % (mech, L, rv))
        return
    if blob != ref:
        c.bad('C_WrapKey(%s) blob differs from the standard (%d-byte key)' % (mech, L))
        return
    # the Coq model of the padding step, on the same input: what the library encrypted is the model's padding
    if mech == 'cbcpad':
        c.model_is('pad 16 %s' % hx(val), R.cbc_dec(wkey, iv, blob), 'RFC5652Pad(%d bytes)' % L)
        c.model_is('unpad 16 %s' % R.cbc_dec(wkey, iv, blob).hex(), val, 'RFC5652Unpad of the padded key')
    elif mech == 'kw':
        c.model_is('pad3394 %s' % hx(val), R.kw_unwrap(wkey, blob), 'RFC3394Pad(%d bytes)' % L)
    tmpl = '0=u:4 0x100=u:0x%x 1=b:0 2=b:0 0x103=b:0 0x162=b:1 3=x:%s' % (ktype, ('U%04d' % rng.randrange(10000)).encode().hex())
    # unwrap what the library wrapped, and what the reference wrapped
    for src, b in (('library', blob), ('reference', ref)):
        r = p.op('unwrap %s %s %s %s %s' % (s, m, hw, b.hex(), tmpl))
        if r.get('rv') != '0x0':
            if ktype == 0x1f and len(expect) not in (16, 24, 32):
                continue
            c.bad('C_UnwrapKey(%s) of the %s blob failed (rv=%s)' % (mech, src, r.get('rv')))
            continue
        check_new_key(c, s, r['h'], expect, 'unwrap(%s, %s blob)' % (mech, src), keytype=ktype, history=0)
    # malformed blobs must be refused and create nothing
    n0 = count_objects(p, s)
    kind = rng.choice(['trunc', 'flip', 'empty', 'ext'])
    bad = bytearray(blob)
    if kind == 'trunc':
        bad = bad[:rng.randrange(0, len(bad))]
    elif kind == 'flip':
        bad[rng.randrange(len(bad))] ^= 1 << rng.randrange(8)
    elif kind == 'empty':
        bad = bytearray()
    else:
        bad = bad + bytes(rng.randrange(256) for _ in range(rng.choice([1, 8, 16])))
    r = p.op('unwrap %s %s %s %s %s' % (s, m, hw, hx(bytes(bad)), tmpl))
    if r.get('rv') == '0x0':
        got = p.attr(s, r['h'], CKA['VALUE'])
        # CBC-PAD has no integrity: a flipped bit in an early block yields a different but well-formed key; KW/KWP must refuse
        if mech in ('kw', 'kwp'):
            c.bad('C_UnwrapKey(%s) accepted a %s blob' % (mech, kind))
        elif kind in ('trunc', 'empty', 'ext') and len(bad) % 16:
            c.bad('C_UnwrapKey(cbcpad) accepted a blob whose length is not a block multiple')
        elif R.pkcs7_unpad(R.cbc_dec(wkey, iv, bytes(bad))) != got:
            c.bad('C_UnwrapKey(cbcpad) produced a key that is not the unpadded CBC decryption of the blob')
        if mech == 'cbcpad' and len(bad) % 16 == 0 and len(bad) > 0:
            c.model_is('unpad 16 %s' % R.cbc_dec(wkey, iv, bytes(bad)).hex(), got, 'RFC5652Unpad acceptance (accepted blob)')
    else:
        if mech == 'cbcpad' and r.get('rv') != 'DIED':
            dec = R.cbc_dec(wkey, iv, bytes(bad)) if len(bad) % 16 == 0 else None
            if dec is not None and ktype == 0x10:
                c.model_is('unpad 16 %s' % hx(dec), None, 'RFC5652Unpad acceptance (refused blob)')
        if r.get('rv') == 'DIED':
            c.bad('C_UnwrapKey(%s) of a %s blob killed the process' % (mech, kind))
        elif count_objects(p, s) != n0:
            c.bad('a refused C_UnwrapKey(%s) left an object behind' % mech)


def count_objects(p, s):
    p.op('findinit %s' % s)
    r = p.op('findseq %s 1000' % s)
    p.op('findfinal %s' % s)
    return int(r.get('n', '-1'))


def derive_case(c, rng, s, hbase, base, haes, akey):
    p = c.p
    mech = rng.choice(['base_data', 'data_base', 'base_key', 'ecb', 'cbc'])
    data = bytes(rng.randrange(256) for _ in range(rng.choice([0, 1, 8, 16, 17, 32])))
    ttype, tlen = rng.choice([(0x10, None), (0x10, 5), (0x10, 16), (0x1f, 16), (0x1f, 32), (0x1f, 24), (0x10, 1)])
    bh, bval = hbase, base
    if mech in ('ecb', 'cbc'):
        bh, bval = haes, akey
        data = bytes(rng.randrange(256) for _ in range(rng.choice([16, 32, 48])))
    iv = bytes(rng.randrange(256) for _ in range(16))
    if mech == 'base_data':
        m, secret = '0x362:sd:%s' % hx(data), bval + data
    elif mech == 'data_base':
        m, secret = '0x363:sd:%s' % hx(data), data + bval
    elif mech == 'base_key':
        other = bytes(rng.randrange(256) for _ in range(rng.choice([8, 16, 20])))
        ho = mk_generic(p, s, other)
        m, secret = '0x360:h:%s' % ho, bval + other
    elif mech == 'ecb':
        m, secret = '0x1104:sd:%s' % data.hex(), R.ecb_enc(bval, data)
    else:
        m, secret = '0x1105:kd:%s:%s' % (iv.hex(), data.hex()), R.cbc_enc(bval, iv, data)
    tmpl = '0=u:4 0x100=u:0x%x 1=b:0 2=b:0 0x103=b:0 0x162=b:1' % ttype
    if tlen is not None:
        tmpl += ' 0x161=u:%d' % tlen
    r = p.op('derive %s %s %s %s' % (s, m, bh, tmpl))
    want = tlen if tlen is not None else len(secret)
    if r.get('rv') != '0x0':
        if r.get('rv') == 'DIED':
            c.bad('C_DeriveKey(%s) killed the process' % mech)
        elif want <= len(secret) and want > 0 and not (ttype == 0x1f and want not in (16, 24, 32)) and tlen is not None and len(data) > 0:
            c.bad('C_DeriveKey(%s) failed although the mechanism yields %d bytes for a %d-byte key (rv=%s)' % (mech, len(secret), want, r.get('rv')))
        return
    if want > len(secret):
        c.bad('C_DeriveKey(%s) produced a %d-byte key from a %d-byte secret' % (mech, want, len(secret)))
        return
    check_new_key(c, s, r['h'], secret[:want], 'derive(%s)' % mech, keytype=ttype)
    got = p.attr(s, r['h'], CKA['VALUE'])
    if got is not None:
        c.model_is('derive 0 %d %s' % (want, hx(secret)), got, 'derived value cut to %d bytes' % want)


def rsa_wrap_case(c, rng, s, pub, priv, k):
    p = c.p
    n, e, d = int(k['n'], 16), int(k['e'], 16), int(k['d'], 16)
    klen = (n.bit_length() + 7) // 8
    val = bytes(rng.randrange(256) for _ in range(rng.choice([16, 24, 32, 20])))
    hk = mk_generic(p, s, val)
    oaep = rng.random() < 0.5
    m = '0x9:oaep:0x220:1:1:' if oaep else '0x1'
    rv, blob = c.out('wrap %s %s %s %s %d' % (s, m, pub, hk, klen))
    if rv != 0:
        return
    em = pow(int.from_bytes(blob, 'big'), d, n).to_bytes(klen, 'big')
    got = R.oaep_decode(em, klen) if oaep else (em[em.index(b'\x00', 2) + 1:] if em[:2] == b'\x00\x02' and b'\x00' in em[2:] else None)
    if got != val:
        c.bad('RSA %s wrapped blob does not decrypt to the key value under the reference' % ('OAEP' if oaep else 'PKCS#1 v1.5'))
    r = p.op('unwrap %s %s %s %s 0=u:4 0x100=u:0x10 1=b:0 2=b:0 0x103=b:0 0x162=b:1' % (s, m, priv, blob.hex()))
    if r.get('rv') == '0x0':
        check_new_key(c, s, r['h'], val, 'unwrap(rsa)', keytype=0x10, history=0)
    else:
        c.bad('C_UnwrapKey(rsa) of the library\'s own blob failed (rv=%s)' % r.get('rv'))


def privkey_wrap_case(c, rng, s, hw, wkey, pub, priv, k):
    """wrap an RSA private key (PKCS#8) and unwrap it with varying sensitivity / extractability templates"""
    p = c.p
    n, e = int(k['n'], 16), int(k['e'], 16)
    klen = (n.bit_length() + 7) // 8
    mech = rng.choice(['0x210a', '0x1085:x:%s' % bytes(rng.randrange(256) for _ in range(16)).hex()])
    rv, blob = c.out('wrap %s %s %s %s 4096' % (s, mech, hw, priv))
    if rv != 0:
        return
    extra = rng.choice(['', '0x162=b:0', '0x162=b:1', '0x103=b:1', '0x103=b:1 0x162=b:0'])
    r = p.op('unwrap %s %s %s %s 0=u:3 0x100=u:0 1=b:0 2=b:0 0x108=b:1 %s' % (s, mech, hw, blob.hex(), extra))
    if r.get('rv') != '0x0':
        c.bad('C_UnwrapKey of a wrapped RSA private key failed (rv=%s, template %r)' % (r.get('rv'), extra))
        return
    h = r['h']
    for a, name in ((CKA['LOCAL'], 'CKA_LOCAL'), (CKA['NEVER_EXTRACTABLE'], 'CKA_NEVER_EXTRACTABLE'), (CKA['ALWAYS_SENSITIVE'], 'CKA_ALWAYS_SENSITIVE')):
        b = p.attr(s, h, a)
        if b is not None and b != b'\x00':
            c.bad('unwrapped private key (template %r): %s is true' % (extra, name))
    msg = bytes(rng.randrange(256) for _ in range(20))
    if p.rv('signinit %s 0x1 %s' % (s, h)) == 0:
        rv, sig = c.out('sign %s %s %d' % (s, msg.hex(), klen))
        if rv != 0 or R.rsa_public(n, e, sig) != R.pkcs1_v15_sig_em(msg, klen):
            c.bad('the unwrapped RSA private key does not sign like the wrapped one')
    # a secret key unwrapped as sensitive / unextractable: history attributes must still be false
    val = bytes(rng.randrange(256) for _ in range(16))
    hk = mk_generic(p, s, val)
    rv, blob = c.out('wrap %s 0x210a %s %s 256' % (s, hw, hk))
    if rv == 0:
        r = p.op('unwrap %s 0x210a %s %s 0=u:4 0x100=u:0x10 1=b:0 2=b:0 %s' % (s, hw, blob.hex(), rng.choice(['0x103=b:1', '0x162=b:0', ''])))
        if r.get('rv') == '0x0':
            for a, name in ((CKA['LOCAL'], 'CKA_LOCAL'), (CKA['NEVER_EXTRACTABLE'], 'CKA_NEVER_EXTRACTABLE'), (CKA['ALWAYS_SENSITIVE'], 'CKA_ALWAYS_SENSITIVE')):
                b = p.attr(s, r['h'], a)
                if b is not None and b != b'\x00':
                    c.bad('unwrapped secret key: %s is true' % name)


def created_kcv_case(c, rng, s):
    """CKA_CHECK_VALUE of created and generated keys"""
    p = c.p
    if rng.random() < 0.5:
        v = bytes(rng.randrange(256) for _ in range(rng.choice([16, 24, 32])))
        h = mk_aes(p, s, v)
        check_new_key(c, s, h, v, 'create(AES)', keytype=0x1f)
    else:
        r = p.op('genkey %s 0x1080 0=u:4 0x100=u:0x1f 0x161=u:%d 1=b:0 2=b:0 0x103=b:0 0x162=b:1' % (s, rng.choice([16, 24, 32])))
        if r.get('rv') == '0x0':
            v = p.attr(s, r['h'], CKA['VALUE'])
            if v is not None:
                check_new_key(c, s, r['h'], v, 'generate(AES)', keytype=0x1f)


def seq_c13(lib, p11drv, seed, idx, paddrv=None):
    rng = random.Random(seed * 15485863 + idx)
    p = P11(p11drv, lib)
    model = PadModel(paddrv) if paddrv else None
    c = Ctx(p, model)
    try:
        s = setup(p, rng)
        wkey = bytes(rng.randrange(256) for _ in range(rng.choice([16, 24, 32])))
        hw = mk_aes(p, s, wkey)
        base = bytes(rng.randrange(256) for _ in range(rng.choice([16, 20, 32])))
        hbase = mk_generic(p, s, base)
        akey = bytes(rng.randrange(256) for _ in range(16))
        haes = mk_aes(p, s, akey)
        k = RSAKEYS[rng.choice([0, 1])]
        pub, priv = mk_rsa(p, s, k)
        for _ in range(rng.randint(5, 9)):
            w = rng.random()
            if w < 0.42:
                wrap_case(c, rng, s, hw, wkey)
            elif w < 0.74:
                derive_case(c, rng, s, hbase, base, haes, akey)
            elif w < 0.78:
                rsa_wrap_case(c, rng, s, pub, priv, k)
            elif w < 0.84:
                privkey_wrap_case(c, rng, s, hw, wkey, pub, priv, k)
            elif w < 0.88:
                dh_case(c, rng, s)
            elif w < 0.95:
                ecdh_case(c, rng, s)
            elif w < 0.98:
                x25519_case(c, rng, s)
            else:
                created_kcv_case(c, rng, s)
            if c.findings or c.model_dis:
                break
    finally:
        p.close()
        if model:
            model.close()
    return {'i': idx, 'trace': p.trace, 'findings': c.findings, 'model_dis': c.model_dis, 'model_evals': c.model_evals}
