#!/bin/bash
# compiler launcher for the Botan configuration: src/lib/crypto/CMakeLists.txt passes MSVC-only "/wd<nnnn>" options
# unconditionally; g++ would take them for input files.  Drop them, run the real compiler.
args=()
for a in "$@"; do
  case "$a" in
    /wd*) ;;
    *) args+=("$a") ;;
  esac
done
exec "${args[@]}"
