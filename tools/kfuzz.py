#!/usr/bin/env python3
"""K-fuzz (C17): the sanitizer build (ASan + UBSan, -fno-sanitize-recover) of the library under
 (a) mutated token directories: object files, token.object and softhsm2.conf with flipped bits, truncations, grown
     and shrunk length fields; a recovering process initialises, logs in, searches, reads every attribute and uses
     the keys; every object file's verdict in the Coq codec (valid / invalid) is compared with the library's;
 (b) the call streams of the other checks (hostile handles, lengths, templates, mechanism parameters) replayed on
     the sanitizer build.
A process that dies, is killed by the sanitizer or hangs is a violation; so is a codec/library disagreement."""
import os, random, shutil, subprocess
import vlib, kstore
from p11i import P11


def asan_env():
    rt = subprocess.run(['gcc', '-print-file-name=libasan.so'], capture_output=True, text=True).stdout.strip()
    rt = os.path.realpath(rt)
    return {'LD_PRELOAD': rt, 'ASAN_OPTIONS': 'detect_leaks=0:abort_on_error=1:handle_abort=1:allocator_may_return_null=0:max_allocation_size_mb=4096',
            'UBSAN_OPTIONS': 'halt_on_error=1:abort_on_error=1:print_stacktrace=1'}


def mutate(data, rng):
    """one mutation of a file's bytes; returns (new bytes, description)"""
    b = bytearray(data)
    k = rng.choice(['flip', 'flip', 'trunc', 'len_big', 'len_huge', 'len_small', 'zero', 'append', 'kind', 'dup', 'empty'])
    if not b:
        return bytes([rng.randrange(256) for _ in range(rng.randint(1, 20))]), 'fill'
    if k == 'flip':
        for _ in range(rng.randint(1, 4)):
            i = rng.randrange(len(b))
            b[i] ^= 1 << rng.randrange(8)
    elif k == 'trunc':
        b = b[:rng.randrange(len(b))]
    elif k in ('len_big', 'len_huge', 'len_small', 'kind'):
        # aim at an 8-byte big-endian field: positions that are multiples of 8 near attribute headers are likely ones
        i = (rng.randrange(max(1, len(b) // 8))) * 8
        if rng.random() < 0.5:
            # find a plausible length field: 8 bytes whose first 5 are zero
            cands = [j for j in range(0, max(1, len(b) - 8)) if b[j:j + 5] == b'\x00' * 5]
            if cands:
                i = rng.choice(cands)
        v = {'len_big': rng.choice([0x10000, 0xFFFFFF, 0x7FFFFFFF]), 'len_huge': rng.choice([0xFFFFFFFFFFFFFFFF, 0x8000000000000000, 0x7FFFFFFFFFFFFFF0, 0xFFFFFFFF]),
             'len_small': rng.choice([0, 1, 7]), 'kind': rng.choice([0, 4, 5, 6, 99])}[k]
        b[i:i + 8] = v.to_bytes(8, 'big')
    elif k == 'zero':
        i = rng.randrange(len(b))
        n = rng.randint(1, 40)
        b[i:i + n] = b'\x00' * len(b[i:i + n])
    elif k == 'append':
        b += bytes(rng.randrange(256) for _ in range(rng.randint(1, 40)))
    elif k == 'dup':
        i = rng.randrange(len(b))
        b = b[:i] + b[i:i + rng.randint(8, 64)] + b[i:]
    else:
        b = bytearray()
    return bytes(b), k


CONF_MUT = ['directories.tokendir = \n', 'objectstore.backend = db\n', 'objectstore.backend = \x00\x01\n', 'log.level = \n', 'slots.removable = maybe\n',
            'slots.mechanisms = CKM_NOPE,,,-\n', 'objectstore.umask = 99999999999999999999\n', '=\n', 'a' * 5000 + '\n', 'slots.mechanisms = ' + 'CKM_AES_CBC,' * 400 + '\n',
            'directories.tokendir = /nonexistent/dir\n', 'directories.tokendir = /etc/hostname\n', 'directories.tokendir = /tmp/' + 'd' * 300 + '\n', 'directories.tokendir = /proc/self/mem/x\n', '\xff\xfe\x00garbage\n', 'objectstore.umask = -1\n', 'library.reset_on_fork = 2\n']


def recover(lib, p11drv, d, env, pred, what, stats):
    """a fresh process on the (mutated) directory d: initialise, log in, search, read, use.  -> (findings, trace)"""
    findings = []
    P11.EXTRA_ENV = env
    try:
        p = P11(p11drv, lib, reuse=d)
    finally:
        P11.EXTRA_ENV = {}
    p.timeout = 90
    died = None

    def op(line):
        nonlocal died
        r = p.op(line)
        if r.get('rv') in ('DIED', 'HANG') and died is None:
            died = (line, r.get('rv'))
        return r
    rv = op('init').get('rv')
    if died is None and rv == '0x0':
        op('slots')
        r = op('open t0 rw')
        s = r.get('h')
        if s and died is None:
            op('login %s 0 %s' % (s, kstore.SO))
            op('logout %s' % s)
            logged = op('login %s 1 %s' % (s, kstore.USER)).get('rv') == '0x0'
            v = None
            if died is None:
                v = kstore.view(p, s)
                if not p.alive() and died is None:
                    died = ('find / getattr of all objects', 'DIED')
            if v and died is None:
                for lab, (n, a) in list(v.items())[:8]:
                    for line in ('encinit %s 0x1082:x:%s %s' % (s, '00' * 16, n), 'enc %s %s 64' % (s, '11' * 16), 'signinit %s 0x1 %s' % (s, n), 'sign %s 0102 300' % s,
                                 'setattr %s %s 0x102=x:0a' % (s, n), 'copy %s %s 3=x:6363' % (s, n), 'objsize %s %s' % (s, n)):
                        op(line)
                        if died:
                            break
                    if died:
                        break
            if died is None and v is not None and pred is not None and logged and 'token.object' not in ' '.join(what) and not env:
                stats['codec_compared'] += 1
                m = kstore.codec_compare(pred, kstore.strip(v), strict=False)
                if m[0]:
                    findings.append(('K-codec on a mutated directory (%s): %s' % (', '.join(what), m[0]), len(p.trace) - 1))
            op('fini')
    if died is None:
        # the application ends the ordinary way (exit() with the library loaded / dlclose() first): whatever C_Initialize did or
        # failed to do, the library's own teardown must not kill the host process
        r = op('endproc %s' % ('dlclose' if env else 'exit'))
        if r.get('rv') == 'DIED' and died is None:
            died = ('endproc (normal process exit after init answered %s)' % rv, 'DIED')
    err = p.stderr_text()
    if died:
        alloc = any(x in err for x in ('allocation-size-too-big', 'out-of-memory', 'bad_alloc', 'length_error'))
        kind = 'hung' if died[1] == 'HANG' else 'died'
        san = ''
        if 'ERROR: AddressSanitizer' in err or 'runtime error' in err:
            line = next((l for l in err.splitlines() if 'ERROR: AddressSanitizer' in l or 'runtime error' in l), '')
            san = ' [' + line.strip()[:140] + ']'
        if not (env and alloc):      # an allocation the sanitizer refuses is judged on the plain build, where it throws
            findings.append(('the process %s on "%s" after the mutation %s%s' % (kind, died[0][:80], ', '.join(what), san), len(p.trace) - 1))
    tr = [(l[:160], r) for l, r in p.trace]
    p.close()
    return findings, tr


def seq_files(lib, liba, p11drv, seed, idx, codecdrv, template):
    rng = random.Random(seed * 49979687 + idx)
    d = vlib.mktmp('vz-')
    findings, stats = [], {'mutations': {}, 'files_mutated': 0, 'codec_compared': 0}
    trace = []
    what = []
    try:
        shutil.copytree(os.path.join(template, 'tokens'), os.path.join(d, 'tokens'))
        vlib.write_conf(d)
        tokdir = [os.path.join(d, 'tokens', x) for x in os.listdir(os.path.join(d, 'tokens'))][0]
        files = sorted(f for f in os.listdir(tokdir))
        target_conf = rng.random() < 0.12
        if target_conf:
            with open(os.path.join(d, 'softhsm2.conf'), 'a', errors='surrogateescape') as f:
                m = rng.choice(CONF_MUT)
                f.write(m)
                what.append('softhsm2.conf += %r' % m[:40])
        else:
            for _ in range(rng.randint(1, 3)):
                f = rng.choice([x for x in files if x.endswith('.object') or x == 'generation' or rng.random() < 0.1])
                pth = os.path.join(tokdir, f)
                data = open(pth, 'rb').read()
                new, k = mutate(data, rng)
                open(pth, 'wb').write(new)
                stats['mutations'][k] = stats['mutations'].get(k, 0) + 1
                stats['files_mutated'] += 1
                what.append('%s:%s' % ('token.object' if f == 'token.object' else f[-14:], k))
        pred = kstore.codec_predict(codecdrv, os.path.join(d, 'tokens')) if not target_conf else None
        snapshot = {}
        for root, _, fs in os.walk(os.path.join(d, 'tokens')):
            for f in fs:
                b_ = open(os.path.join(root, f), 'rb').read()
                snapshot[f] = b_.hex() if len(b_) < 20000 else b_[:20000].hex() + '...'
        snapshot['softhsm2.conf (without the directories line)'] = ''.join(l for l in open(os.path.join(d, 'softhsm2.conf'), errors='replace') if 'tokendir' not in l)
        d2 = vlib.mktmp('vz-')
        shutil.copytree(os.path.join(d, 'tokens'), os.path.join(d2, 'tokens'))
        conf = open(os.path.join(d, 'softhsm2.conf'), errors='surrogateescape').read().replace(d, d2)
        open(os.path.join(d2, 'softhsm2.conf'), 'w', errors='surrogateescape').write(conf)
        try:
            f1, trace = recover(lib, p11drv, d, {}, pred, what, stats)
            f2, tr2 = recover(liba, p11drv, d2, asan_env(), pred, what, stats)
            findings = f1 + [(m + ' (sanitizer build)', j) for m, j in f2]
            if f2 and not f1:
                trace = tr2
        finally:
            shutil.rmtree(d2, ignore_errors=True)
    finally:
        shutil.rmtree(d, ignore_errors=True)
    return {'i': idx, 'trace': trace, 'findings': findings[:2], 'model_dis': [], 'model_evals': stats['codec_compared'], 'stats': stats, 'what': what,
            'extra': {'mutated_token_directory': snapshot} if findings else None}


def seq_api(lib, p11drv, seed, idx, opdrv, paddrv):
    """one sequence of another check's stream, run on the sanitizer build"""
    import kguard, kattr, kcrypto, ksizes
    P11.EXTRA_ENV = asan_env()
    try:
        which = idx % 6
        if which == 0:
            out = kguard.seq_guard(lib, p11drv, seed, idx)
        elif which == 1:
            out = kattr.seq_attr(lib, p11drv, seed, idx)
        elif which == 2:
            out = kcrypto.seq_c10(lib, p11drv, seed, idx)
        elif which == 3:
            out = kcrypto.seq_c13(lib, p11drv, seed, idx, paddrv)
        elif which == 4:
            out = ksizes.run_sequence(lib, p11drv, opdrv, seed, idx)
        else:
            out = kstore.seq_reject(lib, p11drv, seed, idx)
    finally:
        P11.EXTRA_ENV = {}
    tr = out['trace']
    findings = [(m, j) for (m, j) in out.get('findings', []) if any(x in m for x in ('beyond the buffer', 'overw', 'canary', 'OVW'))]
    for j, (l, r) in enumerate(tr):
        if r.get('rv') in ('DIED', 'HANG'):
            findings.append(('the process %s on: %s' % ('hung' if r.get('rv') == 'HANG' else 'died', l[:140]), j))
            break
    return {'i': idx, 'trace': [(l[:200], r) for l, r in tr], 'findings': findings, 'model_dis': [], 'model_evals': 0, 'stats': {'stream': which}}


def seq_incomplete(lib, p11drv, seed, idx):
    """keys with a missing, empty or zero component (accepted templates), then every operation that uses them"""
    from kcrypto import RSAKEYS, be
    rng = random.Random(seed * 32416190071 + idx)
    P11.EXTRA_ENV = asan_env()
    try:
        p = P11(p11drv, lib)
    finally:
        P11.EXTRA_ENV = {}
    findings = []
    try:
        p.op('init')
        p.op('inittoken tfree 31323334 tok0')
        s = p.op('open t0 rw')['h']
        p.op('login %s 0 31323334' % s)
        p.op('initpin %s 35363738' % s)
        p.op('logout %s' % s)
        p.op('login %s 1 35363738' % s)
        k = RSAKEYS[idx % len(RSAKEYS)]
        comp = {'0x120': 'n', '0x122': 'e', '0x123': 'd', '0x124': 'p', '0x125': 'q', '0x126': 'dp', '0x127': 'dq', '0x128': 'qinv'}
        kind = rng.choice(['rsapriv', 'rsapriv', 'rsapub', 'ecpriv', 'ecpub', 'dsapriv', 'dhpriv', 'aes', 'generic'])
        how = rng.choice(['drop', 'empty', 'zero', 'one', 'huge'])
        def mut(v):
            return {'drop': None, 'empty': '', 'zero': '00', 'one': '01', 'huge': 'ff' * 600}[how]
        items = []
        if kind in ('rsapriv', 'rsapub'):
            names = list(comp) if kind == 'rsapriv' else ['0x120', '0x122']
            victim = rng.choice(names)
            for t in names:
                v = be(int(k[comp[t]], 16))
                if t == victim:
                    v = mut(v)
                if v is not None:
                    items.append('%s=x:%s' % (t, v))
            head = '0=u:3 0x100=u:0 0x108=b:1 0x105=b:1 0x107=b:1' if kind == 'rsapriv' else '0=u:2 0x100=u:0 0x104=b:1 0x10a=b:1 0x106=b:1'
        elif kind in ('ecpriv', 'ecpub'):
            parts = {'0x180': '06082a8648ce3d030107', ('0x11' if kind == 'ecpriv' else '0x181'): ('11' * 32 if kind == 'ecpriv' else '0441' + '04' + '22' * 64)}
            victim = rng.choice(list(parts))
            for t, v in parts.items():
                if t == victim:
                    v = mut(v)
                if v is not None:
                    items.append('%s=x:%s' % (t, v))
            head = '0=u:3 0x100=u:3 0x108=b:1 0x10c=b:1' if kind == 'ecpriv' else '0=u:2 0x100=u:3 0x10a=b:1'
        elif kind == 'dsapriv':
            parts = {'0x130': 'c1' * 128, '0x131': 'd1' * 20, '0x132': '02', '0x11': '33' * 20}
            victim = rng.choice(list(parts))
            for t, v in parts.items():
                if t == victim:
                    v = mut(v)
                if v is not None:
                    items.append('%s=x:%s' % (t, v))
            head = '0=u:3 0x100=u:1 0x108=b:1'
        elif kind == 'dhpriv':
            parts = {'0x130': 'c1' * 128, '0x132': '02', '0x11': '33' * 20}
            victim = rng.choice(list(parts))
            for t, v in parts.items():
                if t == victim:
                    v = mut(v)
                if v is not None:
                    items.append('%s=x:%s' % (t, v))
            head = '0=u:3 0x100=u:2 0x10c=b:1'
        else:
            v = mut('11' * 16)
            if v is not None:
                items.append('0x11=x:%s' % v)
            head = ('0=u:4 0x100=u:0x1f' if kind == 'aes' else '0=u:4 0x100=u:0x10') + ' 0x104=b:1 0x105=b:1 0x108=b:1 0x10a=b:1 0x106=b:1 0x107=b:1 0x10c=b:1'
        r = p.op('create %s %s 1=b:%d 2=b:0 0x162=b:1 0x103=b:0 %s' % (s, head, rng.randint(0, 1), ' '.join(items)))
        if r.get('rv') == '0x0':
            h_ = r['h']
            tgt = p.op('create %s 0=u:4 0x100=u:0x1f 1=b:0 2=b:0 0x11=x:%s 0x162=b:1 0x103=b:0' % (s, '77' * 16)).get('h')
            ops = ['signinit %s 0x1 %s' % (s, h_), 'sign %s 0102 600' % s, 'signinit %s 0x40 %s' % (s, h_), 'signupd %s 0102' % s, 'signfin %s 600' % s,
                   'signinit %s 0xd:pss:0x220:1:20 %s' % (s, h_), 'sign %s %s 600' % (s, '11' * 20),
                   'decinit %s 0x1 %s' % (s, h_), 'dec %s %s 600' % (s, '00' * 128), 'decinit %s 0x9:oaep:0x220:1:1: %s' % (s, h_), 'dec %s %s 600' % (s, '00' * 128),
                   'decinit %s 0x3 %s' % (s, h_), 'dec %s %s 600' % (s, '01' * 128),
                   'verifyinit %s 0x1 %s' % (s, h_), 'verify %s 0102 %s' % (s, '00' * 128), 'encinit %s 0x1 %s' % (s, h_), 'enc %s 0102 600' % s,
                   'encinit %s 0x3 %s' % (s, h_), 'enc %s %s 600' % (s, '01' * 128),
                   'signinit %s 0x1041 %s' % (s, h_), 'sign %s %s 600' % (s, '11' * 32), 'verifyinit %s 0x1041 %s' % (s, h_), 'verify %s %s %s' % (s, '11' * 32, '22' * 64),
                   'signinit %s 0x11 %s' % (s, h_), 'sign %s %s 600' % (s, '11' * 20),
                   'derive %s 0x1050:ecdh:1:%s %s 0=u:4 0x100=u:0x10 0x161=u:16 1=b:0 2=b:0' % (s, '04' + '22' * 64, h_),
                   'derive %s 0x21:x:%s %s 0=u:4 0x100=u:0x10 0x161=u:16 1=b:0 2=b:0' % (s, '05' * 128, h_),
                   'encinit %s 0x1082:x:%s %s' % (s, '00' * 16, h_), 'enc %s %s 600' % (s, '11' * 16), 'signinit %s 0x251 %s' % (s, h_), 'sign %s 0102 600' % s,
                   'signinit %s 0x108a %s' % (s, h_), 'sign %s 0102 600' % s]
            if tgt:
                ops += ['wrap %s 0x1 %s %s 600' % (s, h_, tgt), 'wrap %s 0x2109 %s %s 600' % (s, h_, tgt), 'unwrap %s 0x1 %s %s 0=u:4 0x100=u:0x1f 1=b:0 2=b:0' % (s, h_, '00' * 128),
                        'wrap %s 0x2109 %s %s 2000' % (s, tgt, h_)]
            ops += ['getattr %s %s 0x11:700 0x120:700 0x90:8' % (s, h_), 'copy %s %s 3=x:6363' % (s, h_), 'objsize %s %s' % (s, h_), 'digestinit %s 0x250' % s, 'digestkey %s %s' % (s, h_), 'digestfin %s 80' % s]
            for line in ops:
                r2 = p.op(line)
                if r2.get('rv') in ('DIED', 'HANG'):
                    err = p.stderr_text()
                    san = next((l.strip()[:160] for l in err.splitlines() if 'ERROR: AddressSanitizer' in l or 'runtime error' in l), '')
                    findings.append(('the process %s on "%s" with a %s key whose component was %s [%s]' % ('hung' if r2.get('rv') == 'HANG' else 'died', line[:60], kind, how, san), len(p.trace) - 1))
                    break
    finally:
        p.close()
    return {'i': idx, 'trace': [(l[:200], r) for l, r in p.trace], 'findings': findings, 'model_dis': [], 'model_evals': 0, 'stats': {}}


def seq_long_templates(lib, p11drv, seed, idx):
    """templates with many entries (31, 32, 33, 40, 64, 200: around and beyond every fixed-size array the entry points copy them
    into) handed to every template-taking call; the answer may be any return code, the process must live (sanitizer build)"""
    rng = random.Random(seed * 86028157 + idx)
    P11.EXTRA_ENV = asan_env()
    try:
        p = P11(p11drv, lib)
    finally:
        P11.EXTRA_ENV = {}
    findings = []
    try:
        p.op('init')
        p.op('inittoken tfree 31323334 tok0')
        s = p.op('open t0 rw')['h']
        p.op('login %s 0 31323334' % s)
        p.op('initpin %s 35363738' % s)
        p.op('logout %s' % s)
        p.op('login %s 1 35363738' % s)
        base = p.op('create %s 0=u:4 0x100=u:0x1f 0x11=x:%s 1=b:0 2=b:0 0x162=b:1 0x103=b:0 0x106=b:1 0x107=b:1 0x10c=b:1 0x104=b:1' % (s, '5c' * 16)).get('h')
        blob = p.op('wrap %s 0x2109 %s %s 600' % (s, base, base)).get('out', 'ab' * 24)

        def filler(n, valid):
            """n entries: labels and ids over and over (a valid template), or unknown vendor attributes"""
            if valid:
                return ' '.join(('3=x:%02x%02x' % (i & 255, n & 255)) if i % 2 else ('0x102=x:%02x' % (i & 255)) for i in range(n))
            return ' '.join('0x%x=x:%02x' % (0x80000000 + i, i & 255) for i in range(n))
        for _ in range(rng.randint(6, 10)):
            n = rng.choice([31, 32, 33, 34, 40, 64, 200])
            valid = rng.random() < 0.7
            f1, f2 = filler(n, valid), filler(rng.choice([2, n]), valid)
            call = rng.choice(['create', 'genkey', 'genpair_rsa', 'genpair_ec', 'genpair_ed', 'genpair_ed', 'unwrap', 'derive', 'copy', 'setattr', 'findinit', 'getattr'])
            line = {
                'create': 'create %s 0=u:0 1=b:0 2=b:0 %s' % (s, f1),
                'genkey': 'genkey %s 0x1080 0=u:4 0x100=u:0x1f 0x161=u:16 1=b:0 2=b:0 %s' % (s, f1),
                'genpair_rsa': 'genpair %s 0x0 0x121=u:1024 0x122=x:010001 1=b:0 2=b:0 %s -- 1=b:0 2=b:0 %s' % (s, f2, f1),
                'genpair_ec': 'genpair %s 0x1040 0x180=x:06082a8648ce3d030107 1=b:0 2=b:0 %s -- 1=b:0 2=b:0 %s' % (s, f2, f1),
                'genpair_ed': 'genpair %s 0x1055 0x180=x:130c656477617264733235353139 1=b:0 2=b:0 %s -- 1=b:0 2=b:0 %s' % (s, f2, f1),
                'unwrap': 'unwrap %s 0x2109 %s %s 0=u:4 0x100=u:0x1f 1=b:0 2=b:0 %s' % (s, base, blob, f1),
                'derive': 'derive %s 0x1104:sd:%s %s 0=u:4 0x100=u:0x10 0x161=u:16 1=b:0 2=b:0 %s' % (s, '11' * 16, base, f1),
                'copy': 'copy %s %s %s' % (s, base, f1),
                'setattr': 'setattr %s %s %s' % (s, base, f1),
                'findinit': 'findinit %s %s' % (s, f1),
                'getattr': 'getattr %s %s %s' % (s, base, ' '.join('%s:64' % x.split('=')[0] for x in f1.split())),
            }[call]
            r = p.op(line)
            if call == 'findinit':
                p.op('findfinal %s' % s)
            if r.get('rv') in ('DIED', 'HANG'):
                err = p.stderr_text()
                san = next((l for l in err.splitlines() if 'ERROR: AddressSanitizer' in l or 'runtime error' in l), '')
                findings.append(('the process %s on %s with a template of %d entries%s' % ('hung' if r.get('rv') == 'HANG' else 'died', call, n, (' [' + san.strip()[:140] + ']') if san else ''), len(p.trace) - 1))
                break
    finally:
        p.close()
    return {'i': idx, 'trace': [(l[:300], r) for l, r in p.trace], 'findings': findings, 'model_dis': [], 'model_evals': 0, 'stats': {}}
