#!/usr/bin/env python3
"""K-fuzz (C17): the sanitizer build (ASan + UBSan, -fno-sanitize-recover) of the library under
 (a) mutated token directories: object files, token.object and softhsm2.conf with flipped bits, truncations, grown
     and shrunk length fields; a recovering process initialises, logs in, searches, reads every attribute and uses
     the keys; every object file's verdict in the Coq codec (valid / invalid) is compared with the library's;
 (b) the call streams of the other checks (hostile handles, lengths, templates, mechanism parameters) replayed on
     the sanitizer build.
A process that dies, is killed by the sanitizer or hangs is a violation; so is a codec/library disagreement."""
import os, random, shutil, subprocess
import vlib, kstore
from p11i import P11


def asan_env():
    rt = subprocess.run(['gcc', '-print-file-name=libasan.so'], capture_output=True, text=True).stdout.strip()
    rt = os.path.realpath(rt)
    return {'LD_PRELOAD': rt, 'ASAN_OPTIONS': 'detect_leaks=0:abort_on_error=1:handle_abort=1:allocator_may_return_null=0:max_allocation_size_mb=4096',
            'UBSAN_OPTIONS': 'halt_on_error=1:abort_on_error=1:print_stacktrace=1'}


def mutate(data, rng):
    """one mutation of a file's bytes; returns (new bytes, description)"""
    b = bytearray(data)
    k = rng.choice(['flip', 'flip', 'trunc', 'len_big', 'len_huge', 'len_small', 'zero', 'append', 'kind', 'dup', 'empty'])
    if not b:
        return bytes([rng.randrange(256) for _ in range(rng.randint(1, 20))]), 'fill'
    if k == 'flip':
        for _ in range(rng.randint(1, 4)):
            i = rng.randrange(len(b))
            b[i] ^= 1 << rng.randrange(8)
    elif k == 'trunc':
        b = b[:rng.randrange(len(b))]
    elif k in ('len_big', 'len_huge', 'len_small', 'kind'):
        # aim at an 8-byte big-endian field: positions that are multiples of 8 near attribute headers are likely ones
        i = (rng.randrange(max(1, len(b) // 8))) * 8
        if rng.random() < 0.5:
            # find a plausible length field: 8 bytes whose first 5 are zero
            cands = [j for j in range(0, max(1, len(b) - 8)) if b[j:j + 5] == b'\x00' * 5]
            if cands:
                i = rng.choice(cands)
        v = {'len_big': rng.choice([0x10000, 0xFFFFFF, 0x7FFFFFFF]), 'len_huge': rng.choice([0xFFFFFFFFFFFFFFFF, 0x8000000000000000, 0x7FFFFFFFFFFFFFF0, 0xFFFFFFFF]),
             'len_small': rng.choice([0, 1, 7]), 'kind': rng.choice([0, 4, 5, 6, 99])}[k]
        b[i:i + 8] = v.to_bytes(8, 'big')
    elif k == 'zero':
        i = rng.randrange(len(b))
        n = rng.randint(1, 40)
        b[i:i + n] = b'\x00' * len(b[i:i + n])
    elif k == 'append':
        b += bytes(rng.randrange(256) for _ in range(rng.randint(1, 40)))
    elif k == 'dup':
        i = rng.randrange(len(b))
        b = b[:i] + b[i:i + rng.randint(8, 64)] + b[i:]
    else:
        b = bytearray()
    return bytes(b), k


CONF_MUT = ['directories.tokendir = \n', 'objectstore.backend = db\n', 'objectstore.backend = \x00\x01\n', 'log.level = \n', 'slots.removable = maybe\n',
            'slots.mechanisms = CKM_NOPE,,,-\n', 'objectstore.umask = 99999999999999999999\n', '=\n', 'a' * 5000 + '\n', 'slots.mechanisms = ' + 'CKM_AES_CBC,' * 400 + '\n',
            'directories.tokendir = /nonexistent/dir\n', '\xff\xfe\x00garbage\n', 'objectstore.umask = -1\n', 'library.reset_on_fork = 2\n']


def seq_files(lib, p11drv, seed, idx, codecdrv, template):
    rng = random.Random(seed * 49979687 + idx)
    P11.EXTRA_ENV = asan_env()
    d = vlib.mktmp('vz-')
    findings, stats = [], {'mutations': {}, 'files_mutated': 0, 'codec_compared': 0}
    try:
        shutil.copytree(os.path.join(template, 'tokens'), os.path.join(d, 'tokens'))
        vlib.write_conf(d)
        tokdir = [os.path.join(d, 'tokens', x) for x in os.listdir(os.path.join(d, 'tokens'))][0]
        files = sorted(f for f in os.listdir(tokdir))
        what = []
        target_conf = rng.random() < 0.12
        if target_conf:
            with open(os.path.join(d, 'softhsm2.conf'), 'a', errors='surrogateescape') as f:
                m = rng.choice(CONF_MUT)
                f.write(m)
                what.append('softhsm2.conf += %r' % m[:40])
        else:
            for _ in range(rng.randint(1, 3)):
                f = rng.choice([x for x in files if x.endswith('.object') or x == 'generation' or rng.random() < 0.1])
                pth = os.path.join(tokdir, f)
                data = open(pth, 'rb').read()
                new, k = mutate(data, rng)
                open(pth, 'wb').write(new)
                stats['mutations'][k] = stats['mutations'].get(k, 0) + 1
                stats['files_mutated'] += 1
                what.append('%s:%s' % ('token.object' if f == 'token.object' else f[-14:], k))
        pred = kstore.codec_predict(codecdrv, os.path.join(d, 'tokens')) if not target_conf else None
        p = P11(p11drv, lib, reuse=d)
        p.timeout = 90
        died = None

        def op(line):
            nonlocal died
            r = p.op(line)
            if r.get('rv') in ('DIED', 'HANG') and died is None:
                died = (line, r.get('rv'))
            return r
        rv = op('init').get('rv')
        if died is None and rv == '0x0':
            op('slots')
            r = op('open t0 rw')
            s = r.get('h')
            if s and died is None:
                op('login %s 0 %s' % (s, kstore.SO))
                op('logout %s' % s)
                logged = op('login %s 1 %s' % (s, kstore.USER)).get('rv') == '0x0'
                v = None
                if died is None:
                    v = kstore.view(p, s)
                    if p.alive() is False and died is None:
                        died = ('find/getattr of all objects', 'DIED')
                if v and died is None:
                    for lab, (n, a) in list(v.items())[:8]:
                        for line in ('encinit %s 0x1082:x:%s %s' % (s, '00' * 16, n), 'enc %s %s 64' % (s, '11' * 16), 'signinit %s 0x1 %s' % (s, n), 'sign %s 0102 300' % s,
                                     'setattr %s %s 0x102=x:0a' % (s, n), 'copy %s %s 3=x:6363' % (s, n), 'objsize %s %s' % (s, n)):
                            op(line)
                            if died:
                                break
                        if died:
                            break
                if died is None and v is not None and pred is not None and logged and 'token.object' not in ' '.join(what):
                    stats['codec_compared'] += 1
                    m = kstore.codec_compare(pred, kstore.strip(v))
                    if m[0]:
                        findings.append(('K-codec on a mutated directory (%s): %s' % (', '.join(what), m[0]), len(p.trace) - 1))
                op('fini')
        if died is None and not p.alive() and p.p.returncode not in (0, None):
            died = ('(exit)', 'exit status %s' % p.p.returncode)
        if died:
            findings.append(('the process %s on "%s" after the mutation %s' % ('hung' if died[1] == 'HANG' else 'died (%s)' % died[1], died[0][:80], ', '.join(what)), len(p.trace) - 1))
        p.close()
    finally:
        shutil.rmtree(d, ignore_errors=True)
        P11.EXTRA_ENV = {}
    return {'i': idx, 'trace': [(l[:160], r) for l, r in p.trace], 'findings': findings, 'model_dis': [], 'model_evals': stats['codec_compared'], 'stats': stats, 'what': what}


def seq_api(lib, p11drv, seed, idx, opdrv, paddrv):
    """one sequence of another check's stream, run on the sanitizer build"""
    import kguard, kattr, kcrypto, ksizes
    P11.EXTRA_ENV = asan_env()
    try:
        which = idx % 6
        if which == 0:
            out = kguard.seq_guard(lib, p11drv, seed, idx)
        elif which == 1:
            out = kattr.seq_attr(lib, p11drv, seed, idx)
        elif which == 2:
            out = kcrypto.seq_c10(lib, p11drv, seed, idx)
        elif which == 3:
            out = kcrypto.seq_c13(lib, p11drv, seed, idx, paddrv)
        elif which == 4:
            out = ksizes.run_sequence(lib, p11drv, opdrv, seed, idx)
        else:
            out = kstore.seq_reject(lib, p11drv, seed, idx)
    finally:
        P11.EXTRA_ENV = {}
    tr = out['trace']
    findings = []
    for j, (l, r) in enumerate(tr):
        if r.get('rv') in ('DIED', 'HANG'):
            findings.append(('the process %s on: %s' % ('hung' if r.get('rv') == 'HANG' else 'died', l[:140]), j))
            break
    return {'i': idx, 'trace': [(l[:200], r) for l, r in tr], 'findings': findings, 'model_dis': [], 'model_evals': 0, 'stats': {'stream': which}}
