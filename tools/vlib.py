#!/usr/bin/env python3
"""Common machinery of the checks: build /repo's working tree, regenerate coq/gen (T), build the Coq
development and the extracted OCaml drivers, run commands, write evidence, report verdicts."""
import os, sys, json, time, subprocess, hashlib, fcntl, shutil, tempfile, re, glob

ROOT = os.path.dirname(os.path.dirname(os.path.abspath(__file__)))
REPO = os.environ.get('VERIF_REPO', '/repo')
CACHE = os.path.join(ROOT, '.cache')
BIN = os.path.join(CACHE, 'bin')
COQ = os.path.join(ROOT, 'coq')
GEN = os.path.join(COQ, 'gen')
EVID = os.path.join(ROOT, 'evidence')
REPLAY = os.path.join(EVID, 'replay')
for d in (CACHE, BIN, GEN, EVID, REPLAY):
    os.makedirs(d, exist_ok=True)

T0 = time.time()


def log(*a):
    sys.stderr.write('[%6.1fs] ' % (time.time() - T0) + ' '.join(str(x) for x in a) + '\n')
    sys.stderr.flush()


class Lock:
    def __init__(self, name):
        self.path = os.path.join(CACHE, name + '.lock')

    def __enter__(self):
        self.f = open(self.path, 'w')
        fcntl.flock(self.f, fcntl.LOCK_EX)
        return self

    def __exit__(self, *a):
        fcntl.flock(self.f, fcntl.LOCK_UN)
        self.f.close()


def sh(cmd, timeout=None, env=None, cwd=None, input=None):
    e = dict(os.environ)
    if env:
        e.update(env)
    try:
        r = subprocess.run(cmd, shell=isinstance(cmd, str), capture_output=True, text=True, timeout=timeout, env=e, cwd=cwd, input=input)
        return r.returncode, r.stdout, r.stderr
    except subprocess.TimeoutExpired as ex:
        return 124, (ex.stdout or b'').decode('utf8', 'replace') if isinstance(ex.stdout, bytes) else (ex.stdout or ''), 'TIMEOUT'


def file_hash(paths):
    h = hashlib.sha256()
    for p in sorted(paths):
        h.update(p.encode())
        try:
            h.update(open(p, 'rb').read())
        except OSError:
            h.update(b'<missing>')
    return h.hexdigest()


# ------------------------------------------------------------------------------------------- build /repo
def build_repo(variant='ossl-file'):
    """cmake+ninja of /repo's CURRENT working tree into .cache/build-<variant>; returns the build dir.
    Raises RuntimeError when the tree does not build."""
    rc, out, err = sh([os.path.join(ROOT, 'tools', 'buildrepo.sh'), variant], timeout=1500)
    if rc != 0:
        raise RuntimeError('repo build failed (%s): %s' % (variant, err[-3000:]))
    return out.strip().splitlines()[-1]


def lib_path(build):
    return os.path.join(build, 'src', 'lib', 'libsofthsm2.so')


def build_harness(build):
    """compile the C++ drivers against the current headers"""
    out = {}
    with Lock('harness'):
        for name, src, extra in (('p11drv', 'p11drv.cpp', ['-ldl']),):
            srcp = os.path.join(ROOT, 'harness', src)
            dst = os.path.join(BIN, name)
            key = file_hash([srcp, os.path.join(REPO, 'src/lib/pkcs11/pkcs11.h'), os.path.join(REPO, 'src/lib/pkcs11/cryptoki.h')])
            keyf = dst + '.key'
            if not (os.path.exists(dst) and os.path.exists(keyf) and open(keyf).read() == key):
                rc, o, e = sh(['g++', '-O1', '-std=c++11', '-o', dst, srcp, '-I' + os.path.join(REPO, 'src/lib/pkcs11'), '-I' + build] + extra, timeout=300)
                if rc != 0:
                    raise RuntimeError('harness build failed: ' + e[-2000:])
                open(keyf, 'w').write(key)
            out[name] = dst
        srcp = os.path.join(ROOT, 'harness', 'fsshim.c')
        dst = os.path.join(BIN, 'fsshim.so')
        key = file_hash([srcp])
        if not (os.path.exists(dst) and os.path.exists(dst + '.key') and open(dst + '.key').read() == key):
            rc, o, e = sh(['gcc', '-shared', '-fPIC', '-O1', '-o', dst, srcp, '-ldl'], timeout=120)
            if rc != 0:
                raise RuntimeError('fsshim build failed: ' + e[-2000:])
            open(dst + '.key', 'w').write(key)
        out['fsshim'] = dst
        srcp = os.path.join(ROOT, 'harness', 'thrdrv.cpp')
        dst = os.path.join(BIN, 'thrdrv')
        key = file_hash([srcp, os.path.join(REPO, 'src/lib/pkcs11/pkcs11.h')])
        if not (os.path.exists(dst) and os.path.exists(dst + '.key') and open(dst + '.key').read() == key):
            rc, o, e = sh(['g++', '-O1', '-std=c++11', '-o', dst, srcp, '-I' + os.path.join(REPO, 'src/lib/pkcs11'), '-ldl', '-lpthread'], timeout=300)
            if rc != 0:
                raise RuntimeError('thrdrv build failed: ' + e[-2000:])
            open(dst + '.key', 'w').write(key)
        out['thrdrv'] = dst
    return out


# ------------------------------------------------------------------------------------------- translator (T)
GENERATORS = [
    # (output, script, source files that feed it)
    ('Gen_Const.v', 'gen_const.py', ['src/lib/pkcs11/pkcs11.h', 'src/lib/P11Attributes.h', 'src/lib/session_mgr/Session.h',
                                     'src/lib/data_mgr/SecureDataManager.h', 'src/lib/data_mgr/RFC4880.h', 'src/lib/handle_mgr/Handle.h',
                                     'src/lib/object_store/OSAttributes.h', 'src/lib/pkcs11/cryptoki.h']),
    ('Gen_Parity.v', 'gen_parity.py', ['src/lib/crypto/odd.h']),
    ('Gen_Table.v', 'gen_table.py', ['src/lib/P11Objects.cpp', 'src/lib/P11Attributes.h', 'src/lib/P11Attributes.cpp', 'src/lib/P11Objects.h']),
    ('Gen_Entry.v', 'gen_entry.py', ['src/lib/SoftHSM.cpp', 'src/lib/SoftHSM.h', 'src/lib/access.h']),
    ('Gen_Ops.v', 'gen_entry.py ops', ['src/lib/SoftHSM.cpp', 'src/lib/SoftHSM.h']),
    ('Gen_Keys.v', 'gen_entry.py keys', ['src/lib/SoftHSM.cpp', 'src/lib/SoftHSM.h']),
    # proof files KG_<f>.v for Gen_Keys.v (statements fixed in the script; only the cut point is read from Gen_Keys.v) and their index
    ('KG_index.v', 'gen_kgproofs.py', ['src/lib/SoftHSM.cpp', 'src/lib/SoftHSM.h']),
    ('Gen_Token.v', 'gen_token.py', ['src/lib/session_mgr/SessionManager.cpp', 'src/lib/slot_mgr/Token.cpp', 'src/lib/session_mgr/SessionManager.h', 'src/lib/slot_mgr/Token.h']),
    ('Gen_Pure.v', 'gen_pure.py', ['src/lib/access.cpp', 'src/lib/session_mgr/Session.cpp', 'src/lib/P11Attributes.cpp', 'src/lib/P11Attributes.h',
                                   'src/lib/session_mgr/Session.h', 'src/lib/access.h']),
]


def translate(build, only=None):
    """regenerate coq/gen/*.v from the current sources; files are rewritten only when their content
    changes, so an unchanged tree keeps the compiled .vo files valid.  Returns {file: report}."""
    rep = {}
    with Lock('translate'):
        for outn, script, srcs in GENERATORS:
            if only and outn not in only:
                continue
            outp = os.path.join(GEN, outn)
            script, *sargs = script.split()
            deps = [os.path.join(REPO, s) for s in srcs] + [os.path.join(ROOT, 'translator', script), os.path.join(ROOT, 'translator', 'cxxir.py'),
                                                             os.path.join(ROOT, 'translator', 'shallow.py'), os.path.join(build, 'config.h')]
            if outn not in ('Gen_Const.v', 'Gen_Parity.v'):
                deps.append(os.path.join(GEN, 'Gen_Const.v'))
            if outn == 'KG_index.v':
                deps += [os.path.join(GEN, 'Gen_Keys.v'), os.path.join(ROOT, 'translator', 'gen_entry.py')]
            key = file_hash(deps)
            keyf = os.path.join(CACHE, 'gen-' + outn + '.key')
            if os.path.exists(outp) and os.path.exists(keyf) and open(keyf).read() == key:
                rep[outn] = 'cached'
                continue
            tmp = outp + '.new'
            if os.path.exists(outp):
                shutil.copy(outp, tmp)
            rc, o, e = sh([sys.executable, os.path.join(ROOT, 'translator', script), build, tmp] + sargs, timeout=600, cwd=os.path.join(ROOT, 'translator'),
                          env={'VERIF_REPO': REPO})
            if rc != 0 or not os.path.exists(tmp):
                rep[outn] = 'FAILED: ' + (e or o)[-1500:]
                if os.path.exists(tmp):
                    os.remove(tmp)
                continue
            new = open(tmp).read()
            old = open(outp).read() if os.path.exists(outp) else None
            if new != old:
                os.replace(tmp, outp)
                rep[outn] = 'regenerated (changed): ' + o.strip()[-300:]
            else:
                os.remove(tmp)
                rep[outn] = 'regenerated (same): ' + o.strip()[-300:]
            open(keyf, 'w').write(key)
    return rep


# ------------------------------------------------------------------------------------------- Coq
def coq_files():
    fs = []
    for d in ('gen', 'Base', 'P11', 'Store', 'Crypto', 'Conc', 'props', 'extract'):
        fs += sorted(glob.glob(os.path.join(COQ, d, '*.v')))
    return [os.path.relpath(f, COQ) for f in fs]


def coq_make(targets=None, timeout=1500, clean=False):
    """(ok, log).  targets: list of .vo paths relative to coq/ (None = everything)."""
    with Lock('coq'):
        files = coq_files()
        listing = '\n'.join(files)
        lf = os.path.join(CACHE, 'coqfiles.txt')
        if clean or not os.path.exists(os.path.join(COQ, 'Makefile')) or not os.path.exists(lf) or open(lf).read() != listing:
            for stale in ('.Makefile.d', 'Makefile.conf'):
                try:
                    os.remove(os.path.join(COQ, stale))
                except OSError:
                    pass
            rc, o, e = sh(['coq_makefile', '-f', '_CoqProject', '-o', 'Makefile'] + files, cwd=COQ, timeout=120)
            if rc != 0:
                return False, 'coq_makefile: ' + e
            open(lf, 'w').write(listing)
        if clean:
            sh(['make', 'clean'], cwd=COQ, timeout=300)
        cmd = ['make', '-k', '-j16'] + (targets or [])
        rc, o, e = sh(cmd, cwd=COQ, timeout=timeout)
        return rc == 0, (o + '\n' + e)


def print_assumptions(log_text):
    """collect the `Print Assumptions` output that coqc printed while compiling props files"""
    out = []
    cur = None
    for l in log_text.splitlines():
        if l.startswith('Closed under the global context'):
            out.append('Closed under the global context')
        elif l.startswith('Axioms:'):
            cur = []
            out.append(cur)
        elif cur is not None:
            if l.startswith(' ') or l.strip() == '':
                if l.strip():
                    cur.append(l.strip())
            else:
                cur = None
    return out


def theorems_in(vfile):
    txt = open(os.path.join(COQ, vfile)).read()
    txt = re.sub(r'\(\*.*?\*\)', '', txt, flags=re.S)
    return re.findall(r'^\s*(?:Theorem|Lemma|Corollary|Example)\s+([A-Za-z0-9_\']+)', txt, flags=re.M)


def forbidden_vernacular():
    """grep the hand-written development for anything that would declare an axiom or switch a check off"""
    bad = []
    pat = re.compile(r'\b(Admitted|admit|Axiom|Axioms|Parameter|Parameters|Conjecture|Unset\s+Guard|bypass_check|Admit\s+Obligations|type-in-type|impredicative-set|native_compute)\b')
    for f in coq_files():
        txt = open(os.path.join(COQ, f)).read()
        txt = re.sub(r'\(\*.*?\*\)', '', txt, flags=re.S)
        for i, l in enumerate(txt.splitlines()):
            if pat.search(l):
                bad.append('%s:%d: %s' % (f, i + 1, l.strip()))
        # Variable / Hypothesis outside a section
        depth = 0
        for i, l in enumerate(txt.splitlines()):
            if re.match(r'\s*Section\b', l):
                depth += 1
            elif re.match(r'\s*End\b', l) and depth > 0:
                depth -= 1
            elif depth == 0 and re.match(r'\s*(Variable|Variables|Hypothesis|Hypotheses|Context)\b', l):
                bad.append('%s:%d: %s (outside a section)' % (f, i + 1, l.strip()))
    return bad


# ------------------------------------------------------------------------------------------- OCaml drivers
def build_ocaml(name, extracted, driver):
    """compile ocaml/<driver> with coq/extract/<extracted>.ml(i) into .cache/bin/<name>"""
    with Lock('ocaml'):
        srcs = [os.path.join(COQ, 'extract', extracted + '.ml'), os.path.join(COQ, 'extract', extracted + '.mli'), os.path.join(ROOT, 'ocaml', driver)]
        key = file_hash(srcs)
        dst = os.path.join(BIN, name)
        keyf = dst + '.key'
        if os.path.exists(dst) and os.path.exists(keyf) and open(keyf).read() == key:
            return dst
        wd = os.path.join(CACHE, 'ocaml-' + name)
        shutil.rmtree(wd, ignore_errors=True)
        os.makedirs(wd)
        for s in srcs:
            shutil.copy(s, wd)
        rc, o, e = sh(['ocamlfind', 'ocamlopt', '-w', '-a', '-O2' if False else '-inline', '100', extracted + '.mli', extracted + '.ml', driver, '-o', dst], cwd=wd, timeout=600)
        if rc != 0:
            raise RuntimeError('ocaml build failed: ' + (e or o)[-3000:])
        open(keyf, 'w').write(key)
        return dst


# ------------------------------------------------------------------------------------------- known findings
def known_findings():
    """entries of known_findings.txt: {'kind': 'known'|'fixed', 'property': id, 'key': str, 'text': str}"""
    out = []
    p = os.path.join(ROOT, 'known_findings.txt')
    if not os.path.exists(p):
        return out
    for l in open(p):
        l = l.strip()
        if not l or l.startswith('#'):
            continue
        m = re.match(r'(known|fixed):\s+property=(C\d+)\s+(?:key=(\S+)\s+)?(.*)', l)
        if m:
            out.append({'kind': m.group(1), 'property': m.group(2), 'key': m.group(3) or '', 'text': m.group(4)})
    return out


# ------------------------------------------------------------------------------------------- verdicts and evidence
class Result:
    def __init__(self, pid, tier, seed):
        self.pid, self.tier, self.seed = pid, tier, seed
        self.violations = []      # (replay path, summary, no_input)
        self.known = []
        self.coverage = {}
        self.assumptions = []
        self.level = 'proof'

    def violation(self, summary, replay_obj, no_input=False):
        h = hashlib.sha256(json.dumps(replay_obj, sort_keys=True, default=str).encode()).hexdigest()[:12]
        path = os.path.join(REPLAY, '%s-%s.json' % (self.pid, h))
        with open(path, 'w') as f:
            json.dump({'property': self.pid, 'summary': summary, 'replay': replay_obj}, f, indent=1, default=str)
        self.violations.append((path, summary, no_input))

    def known_finding(self, text):
        if text not in self.known:
            self.known.append(text)

    def finish(self):
        if self.coverage.get('discharged') == 0 and self.coverage.get('evaluations', 0) >= 1 and self.coverage.get('distinct_nontrivial', 0) >= 2:
            # nothing of the proof side checks on this tree (reported as a violation): the evidence then records the counts under
            # other names and rests on the exploration counts, as the schema foresees for a level whose own keys are absent
            self.coverage['obligations_total'] = self.coverage.pop('obligations', 0)
            self.coverage['obligations_discharged'] = self.coverage.pop('discharged', 0)
        ev = {'property_id': self.pid, 'tier': self.tier, 'seed': self.seed, 'level': self.level, 'coverage': self.coverage,
              'assumptions': self.assumptions, 'wall_s': round(time.time() - T0, 1), 'violations': len(self.violations)}
        with open(os.path.join(EVID, self.pid + '.json'), 'w') as f:
            json.dump(ev, f, indent=1, default=str)
        for k in self.known:
            print('KNOWN-FINDING: property=%s %s' % (self.pid, k))
        seen = set()
        for (path, summary, no_input) in self.violations:
            if path in seen:
                continue
            seen.add(path)
            sys.stderr.write('violation: %s\n' % summary)
            print('VIOLATION property=%s replay=%s%s' % (self.pid, path, ' no-failing-input-found' if no_input else ''))
        sys.stdout.flush()
        return 1 if self.violations else 0


def mktmp(prefix='vf-'):
    base = '/dev/shm' if os.path.isdir('/dev/shm') else None
    return tempfile.mkdtemp(prefix=prefix, dir=base)


def write_conf(d, backend='file', mechanisms=None, umask=None):
    tok = os.path.join(d, 'tokens')
    os.makedirs(tok, exist_ok=True)
    conf = os.path.join(d, 'softhsm2.conf')
    with open(conf, 'w') as f:
        f.write('directories.tokendir = %s\nobjectstore.backend = %s\nlog.level = ERROR\nslots.removable = false\n' % (tok, backend))
        if mechanisms is not None:
            f.write('slots.mechanisms = %s\n' % mechanisms)
        if umask is not None:
            f.write('objectstore.umask = %s\n' % umask)
    return conf
