#!/usr/bin/env python3
"""Entry point of every check:  tools/check.py <ID> [quick|thorough]   (env: VERIF_SEED, VERIF_TIER)

Steps (DESIGN.md 2.5): build /repo's working tree -> regenerate coq/gen (T) -> compile the property's
theorems -> extract and build the model drivers -> run the correspondence streams (K) and the
property monitors on real traces -> on any broken obligation / disagreement search for a failing
input -> verdict + evidence."""
import sys, os, json, random, shutil, time, re, traceback
sys.path.insert(0, os.path.dirname(os.path.abspath(__file__)))
import vlib, kapi, genapi, monitors, ksizes, kcrypto, kattr, kguard, kstore, ktoken, kfuzz, kdiff, kproc, kenc, kthread

TRUSTED_BASE = [
    'Coq 8.16.1 kernel (coqc, full .vo build); vm_compute used for reflection over regenerated tables and finite sweeps; no native_compute',
    'no axioms: Print Assumptions under every property theorem reports "Closed under the global context" (captured below)',
    'translator T (translator/*.py over clang 14 JSON AST): C++ decision functions -> Gallina (gen/Gen_Pure.v), constants (gen/Gen_Const.v)',
    'extraction: ExtrOcamlBasic only (bool, option, unit, list, prod, sumbool mapped to OCaml; N/positive stay extracted inductives); OCaml 4.13.1; ocaml/*.ml glue',
    'correspondence K: harness/p11drv.cpp (dlopen driver), tools/kapi.py (naming, comparison), generators tools/genapi.py',
    'modelled, not verified: the C++ itself; OpenSSL; symbolic (perfect) encryption of PIN blobs and private attributes',
]


class Ctx:
    pass


def prepare(pid, res, variants=('ossl-file',), props_file=None, extra_vo=()):
    """build, translate, prove, extract.  Returns ctx; ctx.broken lists proof-side breakages."""
    c = Ctx()
    c.broken = []
    c.builds = {}
    for v in variants:
        c.builds[v] = vlib.build_repo(v)
    c.build = c.builds[variants[0]]
    c.lib = vlib.lib_path(c.build)
    c.harness = vlib.build_harness(c.build)
    rep = vlib.translate(c.build)
    c.translate = rep
    for k, v in rep.items():
        if v.startswith('FAILED'):
            c.broken.append('translator could not regenerate %s: %s' % (k, v[:400]))
    props_file = props_file or ('props/Properties_%s.v' % pid)
    targets = [props_file + 'o'] + list(extra_vo)
    ok, log = vlib.coq_make(targets)
    c.coq_log = log
    ths = vlib.theorems_in(props_file)
    c.obligations = len(ths)
    c.theorems = ths
    if ok:
        c.discharged = len(ths)
    else:
        c.discharged = 0
        m = re.search(r'File "([^"]+)", line (\d+)[^\n]*\n(Error:.*?)(?:\n\S|\Z)', log, flags=re.S)
        where = ('%s:%s %s' % (m.group(1), m.group(2), m.group(3)[:600])) if m else log[-800:]
        # count the theorems of the props file that precede the failing line when the failure is in that file
        if m and m.group(1).endswith(os.path.basename(props_file)):
            txt = open(os.path.join(vlib.COQ, props_file)).read().splitlines()[:int(m.group(2))]
            c.discharged = max(0, len(re.findall(r'^\s*(?:Theorem|Lemma|Corollary|Example)\s', '\n'.join(txt), flags=re.M)) - 1)
        c.broken.append('proof obligation no longer checks: ' + where)
    # Print Assumptions for every theorem of the property file, printed afresh on every run
    pa = []
    if ok:
        mod = os.path.splitext(os.path.basename(props_file))[0]
        src = 'From SoftHSM Require Import %s.\n' % mod + ''.join('Print Assumptions %s.\n' % t for t in ths)
        af = os.path.join(vlib.CACHE, 'Assum_%s.v' % pid)
        open(af, 'w').write(src)
        rc, o, e = vlib.sh(['coqc', '-Q', 'gen', 'SoftHSM', '-Q', 'Base', 'SoftHSM', '-Q', 'P11', 'SoftHSM', '-Q', 'Store', 'SoftHSM', '-Q', 'Crypto', 'SoftHSM',
                            '-Q', 'Conc', 'SoftHSM', '-Q', 'props', 'SoftHSM', af], cwd=vlib.COQ, timeout=300)
        pa = vlib.print_assumptions(o)
        for ext in ('.vo', '.vok', '.vos', '.glob'):
            try:
                os.remove(af[:-2] + ext)
            except OSError:
                pass
        if len(pa) != len(ths):
            c.broken.append('Print Assumptions could not be obtained for every theorem: ' + (e or o)[-400:])
        if any(isinstance(x, list) for x in pa):
            pass   # axioms are listed in the evidence; stdlib axioms are allowed and named there
    c.assumptions = pa
    bad = vlib.forbidden_vernacular()
    if bad:
        c.broken.append('forbidden vernacular in the development: ' + '; '.join(bad[:5]))
    res.coverage.update({
        'obligations': c.obligations, 'discharged': c.discharged,
        'checker_cmd': 'cd coq && coq_makefile -f _CoqProject -o Makefile <files> && make -k -j16 %s   (coqc 8.16.1)' % ' '.join(targets),
        'trusted_base': list(TRUSTED_BASE),
        'theorems': ths,
        'print_assumptions': ['; '.join(x) if isinstance(x, list) else x for x in pa],
        'translator': rep,
    })
    return c


def core_driver():
    ok, log = vlib.coq_make(['extract/ExtractCore.vo'])
    if not ok:
        raise RuntimeError('extraction of the core model failed: ' + log[-1500:])
    return vlib.build_ocaml('coredrv', 'core_model', 'coredrv.ml')


def _seq_job(args):
    (lib, p11drv, coredrv, profile, nops, seed, i, monitor_name, userpins, gen_kw) = args
    gen_kw = dict(gen_kw or {})
    c = Ctx()
    c.backend = gen_kw.pop('_backend', 'file')
    c.lib = lib
    c.harness = {'p11drv': p11drv}
    rng = random.Random(seed * 1000003 + i)
    m = kapi.Model(coredrv)
    try:
        g = genapi.Gen(m, rng, profile, **(gen_kw or {}))
        g.prelude(userpins=userpins)
        ops, mres = g.run(nops)
    finally:
        m.close()
    trace, dis = replay_sequence(c, ops, True, coredrv)
    alarms = getattr(monitors, monitor_name)(trace) if monitor_name else []
    return {'i': i, 'ops': ops, 'trace': trace, 'dis': dis, 'alarms': alarms}


def run_kapi(c, res, pid, profile, nseq, nops, seed, monitor_name, userpins=True, stream='K-api', gen_kw=None, known=None, lib=None):
    """model-guided sequences on the real library (16 worker processes); any disagreement or monitor
    alarm is recorded in res (monitor alarms with a shrunk sequence).  known: function(msg, ops) -> text
    of a listed known finding or None."""
    import multiprocessing, copy
    coredrv = core_driver()
    if lib or (gen_kw and '_backend' in gen_kw):
        c = copy.copy(c)
        c.lib = lib or c.lib
        c.backend = (gen_kw or {}).get('_backend', 'file')
    stats = {'sequences': 0, 'ops': 0, 'compared': 0, 'unmodelled_stops': 0, 'disagreements': 0, 'monitor_alarms': 0,
             'op_kinds': {}, 'rv_kinds': {}, 'distinct_traces': 0}
    seen = set()
    samples = []
    jobs = [(lib or c.lib, c.harness['p11drv'], coredrv, profile, nops, seed, i, monitor_name, userpins, gen_kw) for i in range(nseq)]
    monitor = getattr(monitors, monitor_name) if monitor_name else None
    reported = 0
    with multiprocessing.Pool(min(16, max(1, nseq))) as pool:
        for out in pool.imap(_seq_job, jobs, chunksize=4):
            i, ops, trace, dis, alarms = out['i'], out['ops'], out['trace'], out['dis'], out['alarms']
            stats['sequences'] += 1
            stats['ops'] += len(ops)
            for (line, r) in trace:
                k = line.split()[0]
                stats['op_kinds'][k] = stats['op_kinds'].get(k, 0) + 1
                stats['rv_kinds'][r.get('rv', '?')] = stats['rv_kinds'].get(r.get('rv', '?'), 0) + 1
            stats['compared'] += dis['compared']
            stats['wrong_key_reads_not_compared'] = stats.get('wrong_key_reads_not_compared', 0) + dis.get('wrong_key', 0)
            stats['unmodelled_stops'] += 1 if dis['unmodelled'] else 0
            stats['unreadable_label_stops'] = stats.get('unreadable_label_stops', 0) + dis.get('unreadable_label', 0)
            sig = tuple((l.split()[0], r.get('rv')) for l, r in trace)
            nontrivial = sum(1 for l, r in trace[12:] if r.get('rv') == '0x0') >= 3
            if sig not in seen and nontrivial:
                seen.add(sig)
            if len(samples) < 2:
                samples.append([l + '  =>  ' + ' '.join('%s=%s' % (k, v) for k, v in r.items() if k in ('rv', 'h', 'state', 'n', 'objs')) for l, r in trace[:60]])
            if alarms:
                stats['monitor_alarms'] += 1
                idx, msg = alarms[0]
                kf = known(msg, ops) if known else None
                if kf:
                    res.known_finding(kf)
                elif reported < 3:
                    reported += 1
                    small = shrink(c, ops, lambda t, msg=msg: any(mm == msg for _, mm in monitor(t)), idx)
                    res.violation('%s monitor: %s' % (pid, msg), {'kind': 'monitor', 'message': msg, 'ops': small, 'seed': seed, 'sequence': i,
                                                                  'how_to_replay': 'tools/check.py %s --replay <this file>' % pid})
            if dis['first'] is not None:
                stats['disagreements'] += 1
                j, why = dis['first']
                if not alarms and reported < 3:
                    reported += 1
                    res.violation('%s correspondence %s: model and implementation differ at op %d (%s): %s' % (pid, stream, j, ops[j], why),
                                  {'kind': 'correspondence', 'stream': stream, 'ops': ops[:j + 1], 'difference': why, 'seed': seed, 'sequence': i,
                                   'names': 'the correspondence stream %s (coq/P11/Core.v vs libsofthsm2.so) no longer checks' % stream}, no_input=True)
    stats['distinct_traces'] = len(seen)
    return stats, samples


def replay_sequence(c, ops, mres, coredrv=None):
    """run ops on the real library; when mres is True, replay the model with the registration-order
    oracle taken from the real trace (DESIGN.md 2.4) and compare"""
    d = vlib.mktmp()
    try:
        conf = vlib.write_conf(d, backend=getattr(c, 'backend', 'file'))
        real, err = kapi.run_real(c.harness['p11drv'], c.lib, conf, ops)
    finally:
        shutil.rmtree(d, ignore_errors=True)
    real = [r for r in real if r.get('op') != 'EXIT']
    trace = list(zip(ops, real))
    dis = {'first': None, 'compared': 0, 'unmodelled': False}
    if mres is True:
        m = kapi.Model(coredrv)
        m.prios = kapi.registration_oracle(ops, real)
        try:
            mres = []
            for line in ops:
                mr = m.step(line)
                mres.append(mr)
                if mr.get('unmodelled'):
                    break
        finally:
            m.close()
    if mres is not None:
        for j, (line, mr) in enumerate(zip(ops, mres)):
            if mr.get('unmodelled'):
                dis['unmodelled'] = True
                break
            if j >= len(real):
                dis['first'] = (j, 'the implementation produced no result (process died?)')
                break
            if line.split()[0] in ('find', 'findseq') and 'ff3f' in real[j].get('newlabels', '').split(','):
                # the search registered an object whose label cannot be read through this session (a private session object of
                # ANOTHER token, F23: its label is encrypted under that token's key).  The driver names new handles in label
                # order; without the label the names of model and implementation cannot be aligned from here on
                dis['unmodelled'] = True
                dis['unreadable_label'] = 1
                break
            why = kapi.compare(line, real[j], mr)
            dis['compared'] += 1
            if why and kapi.wrong_key_case(ops, real, j, mr):
                # decryption under another token's key (F23): the outcome is random, see kapi.wrong_key_case
                dis['wrong_key'] = dis.get('wrong_key', 0) + 1
                if line.split()[0] == 'getattr':
                    continue
                break
            if why:
                dis['first'] = (j, why)
                break
    return trace, dis


def shrink(c, ops, fails, upto):
    """delta debugging on the op list (keeps the prelude intact); fails(trace) -> bool"""
    ops = ops[:upto + 1] if upto is not None and upto + 1 <= len(ops) else list(ops)

    def test(cand):
        trace, _ = replay_sequence(c, cand, None)
        return fails(trace)
    if not test(ops):
        return ops
    n = 2
    budget = 60
    while len(ops) >= 2 and budget > 0:
        chunk = max(1, len(ops) // n)
        reduced = False
        for st in range(0, len(ops), chunk):
            cand = ops[:st] + ops[st + chunk:]
            budget -= 1
            if cand and test(cand):
                ops = cand
                n = max(n - 1, 2)
                reduced = True
                break
            if budget <= 0:
                break
        if not reduced:
            if chunk == 1:
                break
            n = min(len(ops), n * 2)
    return ops


def finish_proof_side(c, res, pid):
    """a broken obligation with no failing input found so far is still a violation"""
    if c.broken and not res.violations:
        res.violation('%s: %s' % (pid, c.broken[0]), {'kind': 'proof', 'broken': c.broken, 'theorems': c.theorems,
                                                      'log_tail': c.coq_log[-3000:]}, no_input=True)


# =========================================================================================== properties
def check_C03(res, tier, seed):
    c = prepare('C03', res)
    n = 400 if tier == 'quick' else 12000
    stats, samples = run_kapi(c, res, 'C03', 'session', n, 45 if tier == 'quick' else 60, seed, 'monitor_c03')
    st2, d2, _ = run_kcrypto(c, res, 'C03', 'seq_failed_state', 120 if tier == 'quick' else 4000, seed, stream='K-failed-state')
    stats['failed_state'] = st2
    res.coverage.update({'evaluations': stats['ops'] + st2['calls'], 'distinct_nontrivial': stats['distinct_traces'] + d2,
                         'rule': 'K-failed-state (no model): histories in which calls are made to fail (C_InitToken with a NULL label / wrong / NULL PIN, C_Login with wrong PIN / bad user type / NULL PIN, C_InitPIN and C_SetPIN with NULL, short, wrong PINs or in the wrong state, bad flags, bad slot, stale handles); after each failing call the state of every session and the login state of the token (probed with a read-only session when none is open) must be what they were.  K-api: model-guided random call sequences over <=2 tokens (alphabet of the C03 quantifier); a trace is non-trivial when at least 3 calls after the prelude succeed; distinct = distinct (op, rv) sequences',
                         'samples': samples, 'k_api': stats, 'traces_validated_against_impl': stats['sequences']})
    finish_proof_side(c, res, 'C03')


def _ksizes_job(args):
    return ksizes.run_sequence(*args)


def check_C12(res, tier, seed):
    import multiprocessing
    c = prepare('C12', res, extra_vo=['extract/ExtractOp.vo'])
    opdrv = vlib.build_ocaml('opdrv', 'op_model', 'opdrv.ml')
    n = 320 if tier == 'quick' else 8000
    stats = {'sequences': 0, 'calls': 0, 'disagreements': 0, 'monitor_alarms': 0, 'op_kinds': {}, 'rv_kinds': {}}
    seen = set()
    samples = []
    reported = 0
    with multiprocessing.Pool(16) as pool:
        for out in pool.imap(_ksizes_job, [(c.lib, c.harness['p11drv'], opdrv, seed, i) for i in range(n)], chunksize=4):
            stats['sequences'] += 1
            tr = out['trace']
            stats['calls'] += len(tr)
            for l, r in tr:
                k = l.split()[0]
                stats['op_kinds'][k] = stats['op_kinds'].get(k, 0) + 1
                stats['rv_kinds'][r.get('rv', '?')] = stats['rv_kinds'].get(r.get('rv', '?'), 0) + 1
            sig = tuple((l.split()[0], l.split()[-1], r.get('rv'), r.get('len')) for l, r in tr)
            if len(tr) > 12:
                seen.add(sig)
            if len(samples) < 2:
                samples.append([l[:80] + '  =>  ' + ' '.join('%s=%s' % (k, v) for k, v in r.items() if k in ('rv', 'len', 'ovw')) for l, r in tr[5:45]])
            if out['alarms']:
                stats['monitor_alarms'] += 1
                if reported < 3:
                    reported += 1
                    i, msg = out['alarms'][0]
                    res.violation('C12 monitor: %s' % msg, {'kind': 'monitor', 'message': msg, 'ops': [l for l, _ in tr[:i + 1]],
                                                           'results': [r.get('line', '').strip() for _, r in tr[max(0, i - 3):i + 1]], 'seed': seed, 'sequence': out['i']})
            if out['dis']:
                stats['disagreements'] += 1
                if not out['alarms'] and reported < 3:
                    reported += 1
                    j, why = out['dis']
                    res.violation('C12 correspondence K-sizes: model and implementation differ at call %d (%s): %s' % (j, tr[j][0][:80], why),
                                  {'kind': 'correspondence', 'stream': 'K-sizes', 'ops': [l for l, _ in tr[:j + 1]], 'difference': why, 'seed': seed, 'sequence': out['i'],
                                   'names': 'the correspondence stream K-sizes (coq/Crypto/OpModel.v vs libsofthsm2.so) no longer checks'}, no_input=True)
    st_a, distinct_a, samples_a = run_kcrypto(c, res, 'C12', 'seq_asym_len', 48 if tier == 'quick' else 1500, seed, stream='K-asym-len')
    stats['asymmetric'] = st_a
    # the search operation is one of the operations of the property: batches of 0, 1, 2, ... handles against the core model
    # (the driver puts canaries behind the announced number of handles)
    st_f, _ = run_kapi(c, res, 'C12', 'find', 100 if tier == 'quick' else 3000, 45, seed, 'monitor_c19')
    stats['find'] = {k: st_f[k] for k in ('sequences', 'ops', 'compared', 'disagreements', 'monitor_alarms')}
    res.coverage.update({'evaluations': stats['calls'] + st_a['calls'], 'distinct_nontrivial': len(seen) + distinct_a,
                         'rule': 'K-asym-len: RSA sign (PKCS#1, SHA256-PKCS#1, X.509 raw), multi-part sign, decrypt and encrypt with 1024 / 2048-bit keys whose modulus was imported with 0-2 leading zero octets: the length query reports the modulus size, one byte less is CKR_BUFFER_TOO_SMALL with the same length, exactly that size completes.  K-sizes, per sequence: AES ECB/CBC/CBC-PAD/CTR/GCM encryption of a random message in random parts (zero-length parts included) and decryption of the produced ciphertext, each call preceded by a length query and/or a too-small buffer with probability ~0.6, then a sufficient buffer; wrong-kind and second-Init calls interleaved; SHA-256 digest and HMAC with buffer sizes {NULL,0,31,32,40}; distinct = distinct (op, buffer, rv, length) sequences',
                         'samples': samples, 'k_sizes': stats, 'traces_validated_against_impl': stats['sequences']})
    finish_proof_side(c, res, 'C12')


def _kc_job(args):
    fn, a = args[0], args[1:]
    if fn.startswith('cfg:'):
        from p11i import P11
        _, be_, fn = fn.split(':', 2)
        P11.DEFAULT_BACKEND = be_
        try:
            return _kc_job((fn,) + tuple(a))
        finally:
            P11.DEFAULT_BACKEND = 'file'
    mod = kattr if fn.startswith('seq_attr') else kguard if fn.startswith('seq_guard') or fn == 'seq_c01_create' else kstore if fn in ('seq_reject', 'seq_persist') else ktoken if fn in ('seq_tokens', 'seq_failed_state') else kfuzz if fn in ('seq_files', 'seq_api', 'seq_incomplete', 'seq_long_templates') else kdiff if fn == 'seq_cross' else kproc if fn in ('seq_proc', 'seq_race', 'seq_scan_race') else kenc if fn == 'seq_enc' else kcrypto
    return getattr(mod, fn)(*a)


def run_kcrypto(c, res, pid, fn, n, seed, extra=(), stream='K-crypto', lib2=None, lib_override=None, classify=None, accept=None):
    import multiprocessing
    stats = {'sequences': 0, 'calls': 0, 'findings': 0, 'model_disagreements': 0, 'model_evaluations': 0, 'op_kinds': {}}
    seen = set()
    samples = []
    reported = 0
    with multiprocessing.Pool(16) as pool:
        for out in pool.imap(_kc_job, [((fn, lib_override or c.lib) + ((lib2,) if lib2 else ()) + (c.harness['p11drv'], seed, i) + tuple(extra)) for i in range(n)], chunksize=2):
            tr = out['trace']
            stats['sequences'] += 1
            stats['calls'] += len(tr)
            stats['model_evaluations'] += out.get('model_evals', 0)
            for l, r in tr:
                k = l.split()[0] + ('/' + l.split()[2].split(':')[0] if l.split()[0] in ('encinit', 'decinit', 'signinit', 'verifyinit', 'wrap', 'unwrap', 'derive', 'digestinit') and len(l.split()) > 2 else '')
                stats['op_kinds'][k] = stats['op_kinds'].get(k, 0) + 1
            seen.add(tuple((l.split()[0], l.split()[2][:12] if len(l.split()) > 2 else '', r.get('rv'), r.get('len')) for l, r in tr))
            if len(samples) < 2:
                samples.append([l[:90] + '  =>  ' + ' '.join('%s=%s' % (k, str(v)[:40]) for k, v in r.items() if k in ('rv', 'len', 'h')) for l, r in tr[8:40]])
            for msg, j in out['findings']:
                if accept and not accept(msg):
                    continue            # a finding of this stream that is another property's business
                kf = classify(msg) if classify else None
                if kf:
                    stats['known_findings'] = stats.get('known_findings', 0) + 1
                    res.known_finding(kf)
                    continue
                stats['findings'] += 1
                if reported < 3:
                    reported += 1
                    res.violation('%s: %s' % (pid, msg), {'kind': 'reference', 'message': msg, 'ops': [l for l, _ in tr[:j + 1]],
                                                         'results': [r.get('line', '').strip()[:300] for _, r in tr[max(0, j - 3):j + 1]], 'seed': seed, 'sequence': out['i'], 'extra': out.get('extra')})
            for msg, j in out.get('model_dis', []):
                stats['model_disagreements'] += 1
                if reported < 3 and not out['findings']:
                    reported += 1
                    res.violation('%s correspondence %s: %s' % (pid, stream, msg), {'kind': 'correspondence', 'stream': stream, 'difference': msg, 'ops': [l for l, _ in tr[:j + 1]], 'seed': seed, 'sequence': out['i'],
                                  'names': 'the correspondence stream %s (coq/Crypto/Pad.v vs libsofthsm2.so) no longer checks' % stream}, no_input=True)
    return stats, len(seen), samples


def check_C10(res, tier, seed):
    c = prepare('C10', res)
    stats, distinct, samples = run_kcrypto(c, res, 'C10', 'seq_c10', 240 if tier == 'quick' else 6000, seed)
    res.coverage.update({'evaluations': stats['calls'], 'distinct_nontrivial': distinct,
                         'rule': 'per sequence 6-12 cases: AES ECB/CBC/CBC-PAD/CTR(16..128 counter bits)/GCM(IV 1..16 bytes, AAD, tag 4..16 bytes) single- vs multi-part (random splits incl. empty parts) vs the pure-Python reference, decryption of reference ciphertexts, GCM tampering of ciphertext/tag/IV/AAD; HMAC (MD5..SHA-512) and AES-CMAC sign/verify incl. flipped, truncated, extended, empty MACs; digests; RSA PKCS#1 v1.5 / hash-RSA / OAEP / PSS / raw against integer arithmetic with known keys; distinct = distinct call/result sequences',
                         'samples': samples, 'k_crypto': stats, 'traces_validated_against_impl': stats['sequences'],
                         'not_covered': 'DSA, ECDSA, EdDSA signatures, X25519/448, single DES, ECDH on curves other than P-256: no independent implementation in this sandbox (DH and ECDH P-256 shared secrets are checked by integer arithmetic)'})
    finish_proof_side(c, res, 'C10')


def check_C13(res, tier, seed):
    c = prepare('C13', res, extra_vo=['extract/ExtractPad.vo'])
    paddrv = vlib.build_ocaml('paddrv', 'pad_model', 'paddrv.ml')
    stats, distinct, samples = run_kcrypto(c, res, 'C13', 'seq_c13', 240 if tier == 'quick' else 6000, seed, extra=(paddrv,), stream='K-pad')
    res.coverage.update({'evaluations': stats['calls'], 'distinct_nontrivial': distinct,
                         'rule': 'per sequence 5-9 cases: C_WrapKey with AES_KEY_WRAP / AES_KEY_WRAP_PAD / AES_CBC_PAD (wrapping keys 16/24/32 bytes, wrapped lengths 1..72) compared byte-for-byte with RFC 3394/5649 / PKCS#7-CBC references, unwrap of library and reference blobs (value, type, LOCAL/NEVER_EXTRACTABLE/ALWAYS_SENSITIVE, check value), truncated / flipped / empty / extended blobs; RSA PKCS#1 v1.5 and OAEP wrapping; CONCATENATE_* and AES_{ECB,CBC}_ENCRYPT_DATA derivation with requested type/length; CKM_DH_PKCS_DERIVE against integer arithmetic; CKM_ECDH1_DERIVE on P-256 against an integer-arithmetic reference (validated once against the openssl CLI) for GENERIC / AES / DES2 / DES3 targets with absent, zero, fitting and unfitting CKA_VALUE_LEN, decided by the extracted derive_len_lax / agree_value; the extracted Coq padding/cutting model evaluated on the same inputs',
                         'samples': samples, 'k_crypto': stats, 'traces_validated_against_impl': stats['sequences'],
                         'not_covered': 'PKCS#8 content of wrapped private keys; DES key derivation (single DES needs the OpenSSL legacy provider); ECDH on curves other than P-256, X25519 / X448'})
    finish_proof_side(c, res, 'C13')


def check_C07(res, tier, seed):
    c = prepare('C07', res)
    stats, distinct, samples = run_kcrypto(c, res, 'C07', 'seq_guard', 320 if tier == 'quick' else 8000, seed, stream='K-guard')
    res.coverage.update({'evaluations': stats['calls'], 'distinct_nontrivial': distinct,
                         'rule': 'per sequence one slots.mechanisms configuration (ALL / random positive list / random negative list), C_GetMechanismList compared with it, 10 keys (AES, generic secret, DES3, RSA public, RSA private; usage flags all true or all false; CKA_ALLOWED_MECHANISMS absent or 1-3 mechanisms), then 70 cells: C_EncryptInit / C_DecryptInit / C_SignInit / C_VerifyInit / C_WrapKey / C_UnwrapKey (valid blobs built with the reference implementations) / C_DeriveKey / C_DigestInit / C_GenerateKey / C_GenerateKeyPair with a mechanism drawn 75% from those fitting the key and 25% from all the operation dispatches on; a call that returns CKR_OK must have had the usage flag, a fitting class/type, an allowed and an advertised mechanism; finally a CKA_ALWAYS_AUTHENTICATE private key: no output before the context-specific login',
                         'samples': samples, 'k_guard': stats, 'traces_validated_against_impl': stats['sequences'],
                         'not_covered': 'DSA / DH / EC / EdDSA / GOST keys as operands (RSA is the asymmetric representative; EC only through key-pair generation); single DES (legacy provider absent)'})
    finish_proof_side(c, res, 'C07')


# ---- the store group: C05, C09, C16 share the fault / crash sweeps of tools/kstore.py ---------------------------------------
def store_sweep(c, res, pid, tier, seed, modes, codecdrv=None):
    """run the fail and/or kill sweeps; findings of property `pid` become known findings or violations"""
    import multiprocessing
    rng = random.Random(seed)
    shim = c.harness['fsshim']
    tpl, blob = kstore.build_template(c.lib, c.harness['p11drv'], shim)
    stats = {'scenarios': {}, 'fail_cases': 0, 'kill_cases': 0, 'findings_by_class': {}, 'died_as_asked': 0, 'rv_after_fault': {}}
    known = {k['key']: k for k in vlib.known_findings() if k['kind'] == 'known' and k['property'] == pid}
    try:
        S = kstore.scenarios(blob)
        jobs_f, jobs_k = [], []
        budget = 36 if tier == 'quick' else 10 ** 9
        for i, sc in enumerate(S):
            ref = kstore.reference_run(c.lib, c.harness['p11drv'], shim, tpl.dir, sc)
            if ref is None:
                res.violation('%s: the scenario %s cannot be started on the template token' % (pid, sc['name']), {'kind': 'harness', 'scenario': sc['name']}, no_input=True)
                continue
            ev = ref['events']
            stats['scenarios'][sc['name']] = {'events': len(ev), 'rv': ref['rv']}
            pts = set(kstore.sample_points(len(ev), budget, rng))
            # the moments right after an event that changes the directory structure are always explored (a new directory
            # without its files, a file that has just been truncated or removed): at most 40 more points per scenario
            struct = [k + 1 for k, (f, n) in enumerate(ev, 1) if f in ('mkdir', 'remove', 'rename', 'ftruncate', 'rmdir')]
            pts |= set(struct[:20] + struct[-20:])
            cnt = {}
            for k, (f, n) in enumerate(ev, 1):
                cnt[f] = cnt.get(f, 0) + 1
                if k in pts and f != 'fclose':
                    jobs_f.append((c.lib, c.harness['p11drv'], shim, tpl.dir, i, blob, f, cnt[f]))
                if f == 'fwrite' and n.isdigit() and int(n) >= 64 and (k in pts or tier != 'quick' or int(n) >= 4096):
                    jobs_f.append((c.lib, c.harness['p11drv'], shim, tpl.dir, i, blob, 'fwrite~short', cnt[f]))
            for k in sorted(pts):
                jobs_k.append((c.lib, c.harness['p11drv'], shim, tpl.dir, i, blob, k, ref, codecdrv))
        results = []
        with multiprocessing.Pool(16) as pool:
            if 'fail' in modes:
                results += pool.map(kstore.fail_case, jobs_f, chunksize=4)
                stats['fail_cases'] = len(jobs_f)
            if 'kill' in modes:
                rk = pool.map(kstore.kill_case, jobs_k, chunksize=4)
                stats['kill_cases'] = len(jobs_k)
                stats['died_as_asked'] = sum(1 for r in rk if r.get('died'))
                results += rk
        reported = 0
        for r in results:
            if r['kind'] == 'fail':
                key = '%s/%s' % (r['scenario'], 'ok' if r['rv'] == '0x0' else 'error')
                stats['rv_after_fault'][key] = stats['rv_after_fault'].get(key, 0) + 1
            stats['codec_files'] = stats.get('codec_files', 0) + r.get('codec_files', 0)
            for (prop, msg) in r['findings']:
                if prop == 'K-codec' and pid == 'C16':
                    stats['findings_by_class']['K-codec'] = stats['findings_by_class'].get('K-codec', 0) + 1
                    if reported < 3:
                        reported += 1
                        res.violation('C16 correspondence K-codec: %s' % msg, {'kind': 'correspondence', 'stream': 'K-codec', 'scenario': r['scenario'], 'crash_point': r.get('k'), 'sig': r.get('sig'),
                                                                                'difference': msg, 'crash_state_files': r.get('state'),
                                                                                'names': 'correspondence K-codec (coq/Store/Codec.v refresh_file vs ObjectFile::refresh) on a crash state'})
                    continue
                if prop != pid:
                    continue
                cls = kstore.classify(prop, r['scenario'], msg, r.get('sig'))
                stats['findings_by_class'][cls or 'unclassified'] = stats['findings_by_class'].get(cls or 'unclassified', 0) + 1
                if cls in known:
                    res.known_finding('key=%s %s' % (cls, known[cls]['text'][:160]))
                elif reported < 3:
                    reported += 1
                    res.violation('%s: %s' % (pid, msg), {'kind': 'store-' + r['kind'], 'scenario': r['scenario'], 'fault': {k: r.get(k) for k in ('func', 'n', 'k', 'sig', 'rv', 'line')},
                                                          'message': msg, 'how': 'tools/kstore.py: template token, scenario call, harness/fsshim.so armed as recorded', 'seed': seed})
    finally:
        tpl.close()
    return stats


def golden_check(c, res, codecdrv):
    """the token directory written by the pinned version is still usable by the current build"""
    import json as _json
    from p11i import P11
    src = os.path.join(vlib.ROOT, 'fixtures', 'golden-file')
    g = _json.load(open(os.path.join(src, 'golden.json')))
    d = vlib.mktmp('vg-')
    out = {'objects_recorded': len(g['objects']), 'objects_identical': 0, 'files_decoded': 0}
    try:
        shutil.copytree(os.path.join(src, 'tokens'), os.path.join(d, 'tokens'))
        vlib.write_conf(d)
        p = P11(c.harness['p11drv'], c.lib, reuse=d)
        bad = None
        if p.rv('init') != 0:
            bad = 'C_Initialize fails on the golden token directory'
        else:
            s_ = p.op('open t0 rw').get('h')
            if s_ is None:
                bad = 'the golden token is not found'
            elif p.rv('login %s 0 %s' % (s_, g['so'])) != 0:
                bad = 'the recorded SO PIN no longer logs in'
            else:
                p.op('logout %s' % s_)
                if p.rv('login %s 1 %s' % (s_, g['old_user'])) == 0:
                    bad = 'the replaced user PIN logs in'
                elif p.rv('login %s 1 %s' % (s_, g['user'])) != 0:
                    bad = 'the recorded user PIN no longer logs in'
                else:
                    v = kstore.strip(kstore.view(p, s_, big=True)) or {}
                    want = {k: tuple(tuple(a) for a in at) for k, at in g['objects'].items()}
                    dd = kstore.diff_views(want, v)
                    if dd:
                        bad = 'objects differ from the recorded values: ' + dd
                    out['objects_identical'] = sum(1 for k in want if v.get(k) == want[k])
        p.close()
        cd = kstore.Codec(codecdrv)
        for root, _, files in os.walk(os.path.join(src, 'tokens')):
            for f in files:
                if f.endswith('.object'):
                    data = open(os.path.join(root, f), 'rb').read()
                    gg, attrs = kstore.parse_dec(cd.ask('dec', data))
                    out['files_decoded'] += 1
                    if attrs is None or cd.ask('reenc', data) != data.hex():
                        bad = bad or 'the Coq codec does not decode / re-encode the golden file %s' % f
        cd.close()
        if bad:
            res.violation('C05: golden fixture: ' + bad, {'kind': 'golden', 'fixture': src, 'message': bad, 'ops': [l for l, _ in p.trace]})
    finally:
        shutil.rmtree(d, ignore_errors=True)
    return out


def check_C09(res, tier, seed):
    c = prepare('C09', res)
    st = store_sweep(c, res, 'C09', tier, seed, ('fail',))
    stats, distinct, samples = run_kcrypto(c, res, 'C09', 'seq_reject', 160 if tier == 'quick' else 4000, seed, stream='K-reject')
    stats2, samples2 = run_kapi(c, res, 'C09', 'objects', 150 if tier == 'quick' else 6000, 45, seed, 'monitor_c01')
    res.coverage.update({'evaluations': stats['calls'] + st['fail_cases'] + stats2['ops'], 'distinct_nontrivial': distinct + stats2['distinct_traces'],
                         'rule': 'K-reject: per sequence 14-22 calls made to fail (unknown / read-only / wrongly sized / inconsistent attribute at a random template position, missing mandatory attribute, R/O session, logged-out session, bad mechanism parameter, truncated / corrupted / empty wrapped key, stale handle) over create, generate, generate-pair, unwrap, derive, copy, set, destroy for token/session x private/public objects; after every rejected call a second session\'s view of all attributes and the raw object files (minus the generation header) are compared with before.  K-fault: every write-path scenario of tools/kstore.py with each file-system call failing in turn (quick: 36 sampled points per scenario). K-api: the core model (whose failing calls change nothing, by theorem) against the library on random histories.',
                         'samples': samples, 'k_reject': stats, 'k_fault': st, 'k_api': stats2, 'traces_validated_against_impl': stats['sequences'] + stats2['sequences'],
                         'not_covered': 'SQLite backend (see C20); failures of read(2) / fseek'})
    finish_proof_side(c, res, 'C09')


def check_C14(res, tier, seed):
    c = prepare('C14', res)
    stats, distinct, samples = run_kcrypto(c, res, 'C14', 'seq_tokens', 160 if tier == 'quick' else 4000, seed, stream='K-token')
    stats2, samples2 = run_kapi(c, res, 'C14', 'tokens', 200 if tier == 'quick' else 6000, 50, seed, 'monitor_c03', gen_kw={'ntok': 3})
    res.coverage.update({'evaluations': stats['calls'] + stats2['ops'], 'distinct_nontrivial': distinct + stats2['distinct_traces'],
                         'rule': 'K-token: per sequence 25-40 steps over up to three tokens: C_InitToken on the free slot, re-initialisation with the right / a wrong SO PIN with / without sessions, sessions, logins, PIN changes, object creation / destruction, C_Finalize+C_Initialize or a new process; after every step addressed to token j a snapshot (label, serial, flags, session states, objects) of every other token is compared with before; after every restart label, serial, initialisation flags, slot id = (last 8 hex digits of the serial) & 0x7fffffff, both PINs and the token objects are compared.  K-api: the core model (with the isolation / re-initialisation theorems) against the library on random three-token histories.',
                         'samples': samples, 'k_token': stats, 'k_api': stats2, 'traces_validated_against_impl': stats['sequences'] + stats2['sequences'],
                         'not_covered': 'softhsm2-util --init-token / --delete-token (the utility drives the same C_InitToken / ObjectStore code; not run here); SQLite backend (see C20)'})
    finish_proof_side(c, res, 'C14')


def check_C17(res, tier, seed):
    c = prepare('C17', res, variants=('ossl-file', 'asan'), extra_vo=['extract/ExtractCodec.vo', 'extract/ExtractOp.vo', 'extract/ExtractPad.vo'])
    codecdrv = vlib.build_ocaml('codecdrv', 'codec_model', 'codecdrv.ml')
    opdrv = vlib.build_ocaml('opdrv', 'op_model', 'opdrv.ml')
    paddrv = vlib.build_ocaml('paddrv', 'pad_model', 'paddrv.ml')
    liba = vlib.lib_path(c.builds['asan'])
    tpl, blob = kstore.build_template(c.lib, c.harness['p11drv'], c.harness['fsshim'])
    try:
        stats, distinct, samples = run_kcrypto(c, res, 'C17', 'seq_files', 400 if tier == 'quick' else 12000, seed, extra=(codecdrv, tpl.dir), stream='K-codec', lib2=liba)
    finally:
        tpl.close()
    stats2, distinct2, samples2 = run_kcrypto(c, res, 'C17', 'seq_api', 180 if tier == 'quick' else 6000, seed, extra=(opdrv, paddrv), stream='K-api', lib_override=liba)
    stats3, distinct3, samples3 = run_kcrypto(c, res, 'C17', 'seq_incomplete', 200 if tier == 'quick' else 5000, seed, stream='K-api', lib_override=liba)
    stats4, distinct4, _ = run_kcrypto(c, res, 'C17', 'seq_long_templates', 60 if tier == 'quick' else 2000, seed, stream='K-api', lib_override=liba)
    stats3['long_templates'] = stats4
    res.coverage.update({'evaluations': stats['calls'] + stats2['calls'] + stats3['calls'], 'distinct_nontrivial': distinct + distinct2 + distinct3,
                         'rule': 'K-fuzz templates: templates of 31 / 32 / 33 / 34 / 40 / 64 / 200 entries (valid repeated attributes or unknown ones) handed to C_CreateObject, C_GenerateKey, C_GenerateKeyPair (RSA, EC, EdDSA; the long one on the private side), C_UnwrapKey, C_DeriveKey, C_CopyObject, C_SetAttributeValue, C_FindObjectsInit, C_GetAttributeValue on the sanitizer build.  K-fuzz keys: RSA / EC / DSA / DH / AES / generic keys created with one component dropped, empty, 00, 01 or 600 bytes of ff, then every signing, decrypting, verifying, encrypting, deriving, wrapping, unwrapping, digesting and reading call on them, on the sanitizer build.  K-fuzz files: a template token directory (4 objects, both PINs) with 1-3 mutations (bit flips, truncation, 8-byte fields set to big / huge / small values, attribute kinds, zeroed ranges, duplicated ranges, appended bytes, emptied files) in object files, token.object, the generation file, or a hostile line appended to softhsm2.conf; on the plain build and on the ASan+UBSan build a fresh process initialises, lists slots, logs in as SO and user, searches, reads every attribute, and tries encrypt / sign / set / copy / size on up to 8 objects; the number of objects is compared with the number of files the extracted Coq codec reads as valid.  K-fuzz API: the streams of the other checks (K-guard, K-attr, K-crypto C10 / C13, K-sizes, K-reject: hostile handles, lengths, templates, mechanism parameters, key / mechanism mismatches) replayed on the sanitizer build.  A dead, aborted or hung process is a violation (an allocation the sanitizer refuses is judged on the plain build).',
                         'samples': samples, 'k_fuzz_files': stats, 'k_fuzz_api': stats2, 'k_fuzz_keys': stats3, 'traces_validated_against_impl': stats['sequences'] + stats2['sequences'],
                         'not_covered': 'entry points the driver does not call (C_GetOperationState restore, C_WaitForSlotEvent, legacy parallel functions); NULL pointers where PKCS#11 forbids them; Botan and SQLite builds'})
    finish_proof_side(c, res, 'C17')


CONFIGS = [('ossl-file', 'file'), ('ossl-db', 'db'), ('botan-file', 'file'), ('botan-db', 'db')]


def check_C20(res, tier, seed):
    """every configuration against the SAME model / reference implementations (so against each other), plus the
    randomised mechanisms across the two crypto backends"""
    c = prepare('C20', res, variants=tuple(v for v, _ in CONFIGS), extra_vo=['extract/ExtractOp.vo', 'extract/ExtractPad.vo'])
    opdrv = vlib.build_ocaml('opdrv', 'op_model', 'opdrv.ml')
    paddrv = vlib.build_ocaml('paddrv', 'pad_model', 'paddrv.ml')
    per = {}
    q = tier == 'quick'
    known20 = {k['key']: k for k in vlib.known_findings() if k['kind'] == 'known' and k['property'] == 'C20'}

    def botan_known(msg):
        key = None
        if 'cbc' in msg and 'decryption of the reference ciphertext' in msg and 'rv=0x5' in msg:
            key = 'botan-cbc-decrypt'
        elif msg.startswith('C_DeriveKey(ecb) failed') or msg.startswith('C_DeriveKey(cbc) failed'):
            key = 'botan-encrypt-data-derive' if 'rv=0x70' in msg else None
        return ('key=%s %s' % (key, known20[key]['text'][:200])) if key in known20 else None
    total_calls, total_distinct, total_seq = 0, 0, 0
    for variant, backend in CONFIGS:
        lib = vlib.lib_path(c.builds[variant])
        name = '%s+%s' % (variant.split('-')[0], backend)
        st = {}
        a, _ = run_kapi(c, res, 'C20', 'objects', 60 if q else 2500, 45, seed, 'monitor_c01', stream='K-api[%s]' % name, gen_kw={'_backend': backend}, lib=lib)
        b, _ = run_kapi(c, res, 'C20', 'tokens', 40 if q else 1500, 45, seed, 'monitor_c03', stream='K-api[%s]' % name, gen_kw={'_backend': backend, 'ntok': 3}, lib=lib)
        st['k_api'] = {'sequences': a['sequences'] + b['sequences'], 'ops': a['ops'] + b['ops'], 'compared': a['compared'] + b['compared'], 'disagreements': a['disagreements'] + b['disagreements']}
        total_calls += a['ops'] + b['ops']
        total_distinct += a['distinct_traces'] + b['distinct_traces']
        total_seq += a['sequences'] + b['sequences']
        for (fn, n, extra, label) in (('seq_attr', 40 if q else 1500, (), 'K-attr'), ('seq_c10', 40 if q else 1500, (), 'K-crypto'), ('seq_c13', 40 if q else 1500, (paddrv,), 'K-pad'),
                                      ('seq_guard', 40 if q else 1500, (), 'K-guard'), ('seq_reject', 30 if q else 1000, (), 'K-reject'), ('seq_tokens', 80 if q else 1500, (), 'K-token'),
                                      ('seq_persist', 24 if q else 600, (None,), 'K-persist')) + \
                (((('seq_proc', 24 if q else 600, (c.harness['fsshim'],), 'K-proc'),) if backend == 'db' else ())):
            s_, d_, _ = run_kcrypto(c, res, 'C20', 'cfg:%s:%s' % (backend, fn), n, seed, extra=extra, stream='%s[%s]' % (label, name), lib_override=lib,
                                    classify=botan_known if variant.startswith('botan') else None)
            st[label] = {'sequences': s_['sequences'], 'calls': s_['calls'], 'findings': s_['findings'], 'known_findings': s_.get('known_findings', 0)}
            total_calls += s_['calls']
            total_distinct += d_
            total_seq += s_['sequences']
        per[name] = st
    # the SQLite store's C_CopyObject (DBObject::nextAttributeType is a stub): directed probe, known finding
    known = {k['key']: k for k in vlib.known_findings() if k['kind'] == 'known' and k['property'] == 'C20'}
    for variant, backend in CONFIGS:
        if backend != 'db':
            continue
        bad = kdiff.probe_db_copy(vlib.lib_path(c.builds[variant]), c.harness['p11drv'])
        if bad:
            if 'db-copyobject' in known:
                res.known_finding('key=db-copyobject %s' % known['db-copyobject']['text'][:200])
            else:
                res.violation('C20: ' + bad[0], {'kind': 'probe', 'message': bad[0], 'ops': bad[1], 'configuration': variant})
    # randomised mechanisms: produced under one crypto backend, accepted under the other
    xs, xd, _ = run_kcrypto(c, res, 'C20', 'seq_cross', 40 if q else 1200, seed, extra=(vlib.lib_path(c.builds['botan-file']),), stream='K-cross')
    total_calls += xs['calls']
    res.coverage.update({'evaluations': total_calls, 'distinct_nontrivial': total_distinct + xd,
                         'rule': 'for each of the four configurations {OpenSSL, Botan} x {file, SQLite}: the K-api correspondence with the SAME extracted core model (objects and three-token profiles, restarts included), and the K-attr, K-crypto (byte-for-byte against the reference implementations), K-pad, K-guard, K-reject and K-token streams; agreement of every configuration with the same model and references is agreement with each other.  K-cross: RSA PKCS#1 v1.5 / PSS signatures, RSA PKCS#1 v1.5 / OAEP ciphertexts, AES-GCM ciphertexts and wrapped keys produced under OpenSSL are verified / decrypted / unwrapped under Botan and vice versa, with the same imported keys.',
                         'per_configuration': per, 'k_cross': xs, 'traces_validated_against_impl': total_seq + xs['sequences'],
                         'not_covered': 'K-sizes (buffer protocol) is run on the OpenSSL+file configuration only (C12); ECDSA / EdDSA / DH across backends'})
    finish_proof_side(c, res, 'C20')


def check_C15(res, tier, seed):
    c = prepare('C15', res, extra_vo=['extract/ExtractCodec.vo'])
    codecdrv = vlib.build_ocaml('codecdrv', 'codec_model', 'codecdrv.ml')
    shim = c.harness['fsshim']
    stats, distinct, samples = run_kcrypto(c, res, 'C15', 'seq_proc', 120 if tier == 'quick' else 4000, seed, extra=(shim,), stream='K-proc')
    known = {k['key']: k for k in vlib.known_findings() if k['kind'] == 'known' and k['property'] == 'C15'}

    def cls(msg):
        if msg.startswith('set_vs_set_same:') and ' is lost ' in msg and 'lost-update' in known:
            return 'key=lost-update %s' % known['lost-update']['text'][:200]
        return None
    stats2, distinct2, samples2 = run_kcrypto(c, res, 'C15', 'seq_race', 160 if tier == 'quick' else 5000, seed, extra=(shim, codecdrv), stream='K-race', classify=cls)
    stats3, distinct3, _ = run_kcrypto(c, res, 'C15', 'seq_scan_race', 90 if tier == 'quick' else 3000, seed, extra=(shim,), stream='K-scan-race')
    stats2['scan_race'] = stats3
    res.coverage.update({'evaluations': stats['calls'] + stats2['calls'], 'distinct_nontrivial': distinct + distinct2,
                         'rule': 'K-proc: two or three library processes on one token directory, 14-24 steps: a random process creates (public / private), relabels, changes CKA_OBJECT_ID of, or destroys a token object; the ghost (the fold of the committed writes, as in the theorem) is updated on CKR_OK; after every step another process searches and reads everything without re-initialising and must see exactly the ghost, and a handle it holds for a destroyed object must be invalid.  K-race: process A\'s set / create / destroy is paused by the shim before its k-th file-system call (k random over the whole call), process B runs a complete call on the same object, another object, or a search (overtaking A or waiting for its lock), A is released; both must return, both must then see the same objects, every committed effect must be present (no lost update, no resurrection, no duplicate), every object file must decode in the extracted codec.',
                         'samples': samples, 'k_proc': stats, 'k_race': stats2, 'traces_validated_against_impl': stats['sequences'] + stats2['sequences'],
                         'not_covered': 'SQLite backend; more than one pause point per call; three-way races'})
    finish_proof_side(c, res, 'C15')


def check_C06(res, tier, seed):
    c = prepare('C06', res, extra_vo=['extract/ExtractCodec.vo'])
    codecdrv = vlib.build_ocaml('codecdrv', 'codec_model', 'codecdrv.ml')
    known = {k['key']: k for k in vlib.known_findings() if k['kind'] == 'known' and k['property'] == 'C06'}

    def cls(msg):
        if msg.startswith('cross-token:') and 'cross-token-session' in known:
            return 'key=cross-token-session %s' % known['cross-token-session']['text'][:200]
        return None
    stats, distinct, samples = run_kcrypto(c, res, 'C06', 'seq_enc', 160 if tier == 'quick' else 5000, seed, extra=(codecdrv,), stream='K-enc', classify=cls)
    stats2, samples2 = run_kapi(c, res, 'C06', 'objects', 120 if tier == 'quick' else 4000, 45, seed, 'monitor_c01')
    res.coverage.update({'evaluations': stats['calls'] + stats2['ops'], 'distinct_nontrivial': distinct + stats2['distinct_traces'],
                         'rule': 'K-enc: per history a random objectstore.umask, 5-9 steps storing byte strings of private objects through C_CreateObject (data, AES / generic / RSA / DSA / DH keys, certificates), C_GenerateKey, C_GenerateKeyPair, C_UnwrapKey, C_DeriveKey, C_CopyObject with public-to-private upgrade, C_SetAttributeValue, interleaved with user / SO PIN changes; then (1) every value of >= 5 bytes that C_GetAttributeValue returned for a private object is searched in all bytes below directories.tokendir, (2) an independent decoder (extracted Coq codec for the file format, hashlib SHA-256 and the pure-Python AES of tools/refcrypto.py for the PIN blobs and ciphertexts) opens both PIN blobs with the correct PINs, must get the same master key, must fail with wrong PINs, decrypts every byte-string attribute of every private object file and compares with the API, (3) all IVs are distinct, (4) every file and directory has no mode bit outside the umask.  K-api: the core model (with the encryption theorems) against the library.',
                         'samples': samples, 'k_enc': stats, 'k_api': stats2, 'traces_validated_against_impl': stats['sequences'] + stats2['sequences'],
                         'not_covered': 'SQLite backend; nested template entries (excluded by the property)'})
    finish_proof_side(c, res, 'C06')


def run_khandle(c, res, pid, tier, seed):
    try:
        import khandle
        hcov, hbad = khandle.run(c.build, seed, 300 if tier == 'quick' else 900)
        res.coverage['k_handle'] = hcov
        for b in hbad[:3]:
            res.violation(pid + ': K-handle: %s' % b['why'], {'kind': 'handle-manager-correspondence', 'ops': b['ops'], 'implementation_printed': b['impl'], 'coq_case': b.get('coq_case', ''),
                                                           'how': 'echo "<ops>" | .cache/bin/hmdrv   (ops: s slot ptr | o slot hsess priv ptr | t slot priv ptr | d h | c h | a slot | l slot); model: coq/Conc/HandleLife.v `obs`'}, no_input=bool(b.get('no_input')))
    except Exception as e:
        res.violation(pid + ': K-handle could not run: %s' % str(e)[:300], {'kind': 'handle-manager-correspondence', 'theorem_or_correspondence': 'K-handle (coq/Conc/HandleLife.v vs src/lib/handle_mgr/HandleManager.cpp)', 'error': str(e)[:2000]}, no_input=True)


def check_C18(res, tier, seed):
    import multiprocessing
    c = prepare('C18', res)
    thr = c.harness['thrdrv']
    rng = random.Random(seed)
    known = {k['key']: k for k in vlib.known_findings() if k['kind'] == 'known' and k['property'] == 'C18'}
    jobs, info = [], {}
    for sc in kthread.SCENARIOS:
        s1, s2, free = kthread.run(thr, c.lib, sc, -1), kthread.run(thr, c.lib, sc, -2), kthread.run(thr, c.lib, sc, 0)
        if 'A' not in s1 or 'A' not in s2 or 'locks' not in free:
            res.violation('C18: scenario %s does not run sequentially: %s' % (sc, (s1['raw'] + ' | ' + s2['raw'] + ' | ' + free['raw'])[:300]), {'kind': 'thread', 'scenario': sc, 'raw': [s1['raw'], s2['raw'], free['raw']]})
            continue
        seqs = [s1, s2]
        if sc == 'closelast_openlogin':
            # B makes two calls (open + login, then create): A's call may also be ordered between them
            s3 = kthread.run(thr, c.lib, sc, -3)
            if 'A' in s3:
                seqs.append(s3)
        L = free['locks']
        ks = list(range(1, L + 1))
        if tier == 'quick' and len(ks) > 48 and sc != 'closelast_openlogin':      # that scenario's window is a single lock point: always all of them
            ks = sorted(set(ks[:16] + ks[-16:] + rng.sample(ks[16:-16], 16)))
        info[sc] = {'lock_points': L, 'explored': len(ks), 'sequential': [s1['raw'][:160], s2['raw'][:160]]}
        jobs += [(thr, c.lib, sc, k, seqs) for k in ks] + [(thr, c.lib, sc, 0, seqs)] * (3 if tier == 'quick' else 40)
    with multiprocessing.Pool(16) as pool:
        results = pool.map(kthread.thread_case, jobs, chunksize=4)
    # free-running read-only stress: 8 threads, no schedule control (run a few at a time: each run is 8 busy threads)
    nstress, iters = (6, 400) if tier == 'quick' else (60, 1500)
    with multiprocessing.Pool(2) as pool:
        stress = pool.map(kthread.stress_case, [(thr, c.lib, 8, iters, i, 'stress' if i % 2 == 0 else 'stressos') for i in range(nstress)] +
                          [(thr, c.lib, 4, iters, nstress + i, 'churn') for i in range(nstress // 2)])
    byclass, reported = {}, 0
    sbad = [x for x in stress if x['finding']]
    for x in sbad[:2]:
        res.violation('C18: ' + x['finding'], {'kind': 'thread-stress', 'threads': 8, 'iterations': iters, 'observed': x['raw'], 'mode': ('churn' if x['i'] >= nstress else 'stressos' if x['i'] % 2 else 'stress'),
                                               'how': 'harness/thrdrv <libsofthsm2.so> stress 8 %d with SOFTHSM2_CONF pointing at an empty token directory (repeat: the failure depends on the schedule)' % iters})
    for r in results:
        for msg in r['findings']:
            key = None
            if r['scenario'] in ('create_find', 'createsession_find', 'find_create', 'generate_generate', 'create_create') and 'explained by neither' in msg:
                fin = msg.split('final=')[1].split(')')[0].split(',') if 'final=' in msg else []
                if len(fin) != len(set(fin)):
                    key = 'duplicate-object-instance'
                elif 'B=0x0:,' in msg or 'B=0x0:?' in msg or 'A=0x0:,' in msg or 'A=0x0:?' in msg:
                    key = 'half-created-visible'
            elif r['scenario'] in ('create_find', 'createsession_find', 'find_create', 'generate_generate', 'create_create') and 'two different handles' in msg:
                key = 'duplicate-object-instance'      # the searching thread's instance and the creating thread's instance of the same new object
            elif r['scenario'] in ('logout_getprivate', 'destroy_getattr', 'getattr_destroy') and 'explained by neither' in msg:
                # the reading call answered SOME error and no data while the object / the login went away under it
                import re as _re
                m_ = _re.search(r'A=(0x[0-9a-f]+):(\S*) B=(0x[0-9a-f]+):(\S*) final=(\S+)\)', msg)
                if m_ and m_.group(1) == '0x0' and m_.group(3) != '0x0' and m_.group(4) == '.':
                    key = 'logout-during-read' if r['scenario'] == 'logout_getprivate' else 'destroy-during-read'
            byclass[key or 'unclassified'] = byclass.get(key or 'unclassified', 0) + 1
            if key in known:
                res.known_finding('key=%s %s' % (key, known[key]['text'][:200]))
            elif reported < 3:
                reported += 1
                res.violation('C18: ' + msg, {'kind': 'thread-schedule', 'scenario': r['scenario'], 'stop_A_before_LockMutex': r['k'], 'observed': r['raw'],
                                              'how': 'harness/thrdrv <libsofthsm2.so> %s %d with SOFTHSM2_CONF pointing at an empty token directory' % (r['scenario'], r['k'])})
    res.coverage.update({'evaluations': len(jobs), 'distinct_nontrivial': len(jobs),
                         'rule': '14 two-thread scenarios (search / search on unregistered and registered token objects, private reads, create / create, create / search, session-object create / search, destroy / read, set / read, logout / private read, open / close session, HMAC / HMAC with one key, generate / generate, search / create, read / close): locking enabled with application mutex callbacks; thread A is stopped before each of its LockMutex calls in turn (quick: first 16, last 16 and 16 random ones per scenario) while thread B runs its whole call; the outcome (both return codes and outputs, final object set, handle uniqueness) must equal that of A;B or of B;A run without concurrency; plus free-running repetitions; a run that does not finish in 25 s is a deadlock; plus stress runs of 8 free-running threads that only read unchanging objects (answers must equal the sequential ones; a signal is a crash)',
                         'stress': {'runs': nstress, 'threads': 8, 'iterations_per_thread': iters, 'calls': sum(x.get('calls', 0) for x in stress), 'failed_runs': len(sbad),
                                    'what': 'private and public CKA_VALUE reads, search, AES-ECB encryption under a private token key; each thread its own session; answers compared with a sequential run; every other run uses CKF_OS_LOCKING_OK after an unlocked C_Initialize(NULL) / C_Finalize cycle instead of mutex callbacks; churn runs: two threads create and destroy session objects while two threads search and read labels - only a crash or a hang counts there'},
                         'scenarios': info, 'findings_by_class': byclass, 'traces_validated_against_impl': len(jobs),
                         'not_covered': 'more than two threads under schedule control, more than one stop point per call, OS locking (CKF_OS_LOCKING_OK) instead of callbacks, data races without a visible effect (no ThreadSanitizer run), SQLite backend'})
    run_khandle(c, res, 'C18', tier, seed)
    finish_proof_side(c, res, 'C18')


def check_C01(res, tier, seed):
    c = prepare('C01', res)
    n = 400 if tier == 'quick' else 12000
    stats, samples = run_kapi(c, res, 'C01', 'objects', n, 45 if tier == 'quick' else 65, seed, 'monitor_c01')
    st2, d2, s2 = run_kcrypto(c, res, 'C01', 'seq_c01_create', 120 if tier == 'quick' else 4000, seed, stream='K-create')
    res.coverage.update({'evaluations': stats['ops'] + st2['calls'], 'distinct_nontrivial': stats['distinct_traces'] + d2,
                         'rule': (RULE % 'objects') + '; K-create: five session states (public R/W and R/O, SO, user R/W and R/O) x seven creating paths (create, generate, generate pair, unwrap, two derivations, copy) x CKA_PRIVATE {true, omitted, false} x CKA_TOKEN {false, true, omitted}: no private object without the user logged in, no token object through an R/O session',
                         'samples': samples, 'k_api': stats, 'k_create': st2, 'traces_validated_against_impl': stats['sequences'] + st2['sequences']})
    finish_proof_side(c, res, 'C01')


def check_C05(res, tier, seed):
    c = prepare('C05', res, extra_vo=['extract/ExtractCodec.vo'])
    codecdrv = vlib.build_ocaml('codecdrv', 'codec_model', 'codecdrv.ml')
    st = store_sweep(c, res, 'C05', tier, seed, ('fail',))
    stats, distinct, samples = run_kcrypto(c, res, 'C05', 'seq_persist', 64 if tier == 'quick' else 1500, seed, extra=(codecdrv,), stream='K-codec')
    gold = golden_check(c, res, codecdrv)
    stats2, samples2 = run_kapi(c, res, 'C05', 'persist', 150 if tier == 'quick' else 5000, 50, seed, 'monitor_c01')
    res.coverage.update({'evaluations': stats['calls'] + st['fail_cases'], 'distinct_nontrivial': distinct,
                         'rule': 'K-persist: per sequence 5-9 objects of 10 kinds (data 0..300000 bytes, AES / generic keys, RSA public keys, certificates, CKA_ALLOWED_MECHANISMS, nested CKA_WRAP_TEMPLATE, dates), 2-4 rounds of label / id changes, copies, destructions, each followed by C_Finalize+C_Initialize, a new process or C_CloseAllSessions; the token objects and every attribute value before and after must be identical, destroyed objects must stay away, session objects must be gone.  K-codec: every object file left behind decodes in the extracted Coq codec, re-encodes to the same bytes, and for public objects every decoded value equals the C_GetAttributeValue result.  Golden: the token directory committed under fixtures/ (written by the pinned version) is opened by the current build: both PINs log in, every object has the recorded values.  K-fault: a call that answers CKR_OK although a file-system call failed must have left its effect on disk.',
                         'samples': samples, 'k_persist': stats, 'k_fault': st, 'golden': gold, 'k_api': stats2, 'traces_validated_against_impl': stats['sequences'] + stats2['sequences'],
                         'not_covered': 'SQLite backend (see C20)'})
    finish_proof_side(c, res, 'C05')


def check_C16(res, tier, seed):
    c = prepare('C16', res, extra_vo=['extract/ExtractCodec.vo'])
    codecdrv = vlib.build_ocaml('codecdrv', 'codec_model', 'codecdrv.ml')
    st = store_sweep(c, res, 'C16', tier, seed, ('kill',), codecdrv)
    # the first logins after C_InitToken / C_InitPIN on a token that never had a user PIN (the template token is past that point)
    fl, fls = kstore.first_login_crash(c.lib, c.harness['p11drv'], c.harness['fsshim'])
    st['first_login'] = fls
    for (_, msg) in fl[:2]:
        res.violation('C16: ' + msg, {'kind': 'first-login-crash', 'message': msg,
                                      'how': 'fresh token: C_InitToken, SO login, one public token object, C_InitPIN, C_Finalize; new process under harness/fsshim.so: C_Login, killed before the named event; a third process checks token, PINs, object'})
    res.coverage.update({'evaluations': st['kill_cases'] + fls['kill_cases'], 'distinct_nontrivial': st['kill_cases'],
                         'rule': 'K-crash: 18 write-path scenarios (create data / big data / private key, set attribute on a public and a private object, copy, destroy, generate key, generate key pair, unwrap, derive, C_SetPIN user / SO, C_InitPIN, C_Login, C_InitToken re-init and fresh) on a template token with four objects; harness/fsshim.so first logs the file-system events of the call, then the process is killed (_exit, nothing flushed) before event k for every k (quick: 36 sampled points per scenario incl. the first and last 12); a fresh process must initialise, find the token, log in with both PINs, return every untouched object unchanged and the written object in its old or new state (a created one may be absent, but never incomplete)',
                         'k_crash': st, 'traces_validated_against_impl': st['kill_cases'],
                         'not_covered': 'power-loss reordering of writes (the shim kills the process, the page cache survives); SQLite backend'})
    finish_proof_side(c, res, 'C16')


ATTR_RULE = ('per sequence 4-8 keys made by create / generate / unwrap / derive (ECB data, concatenations) / copy / generate-then-protect / RSA private import with random SENSITIVE, EXTRACTABLE, WRAP_WITH_TRUSTED; after each: history attributes against the ghost record, C_GetAttributeValue of secret attributes with buffers {NULL,0,n-1,n,n+9} alone or mixed, then one of: weakening attempts by set/copy (canonical and non-canonical true bytes), wrapping under untrusted/trusted keys, read-only attributes and MODIFIABLE/COPYABLE/DESTROYABLE gates, caller-supplied history attributes on create/generate/derive; TRUSTED by user vs SO; private->public copy')


def attr_check(pid):
    def f(res, tier, seed):
        c = prepare(pid, res)
        stats, distinct, samples = run_kcrypto(c, res, pid, 'seq_attr', 240 if tier == 'quick' else 6000, seed, stream='K-attr')
        res.coverage.update({'evaluations': stats['calls'], 'distinct_nontrivial': distinct, 'rule': ATTR_RULE, 'samples': samples, 'k_attr': stats,
                             'traces_validated_against_impl': stats['sequences']})
        finish_proof_side(c, res, pid)
    return f


def kapi_check(pid, profile, monitor_name, rule, nq=400, nt=12000, nops=45):
    def f(res, tier, seed):
        c = prepare(pid, res)
        n = nq if tier == 'quick' else nt
        stats, samples = run_kapi(c, res, pid, profile, n, nops if tier == 'quick' else nops + 20, seed, monitor_name)
        res.coverage.update({'evaluations': stats['ops'], 'distinct_nontrivial': stats['distinct_traces'], 'rule': rule,
                             'samples': samples, 'k_api': stats, 'traces_validated_against_impl': stats['sequences']})
        finish_proof_side(c, res, pid)
    return f


def check_C11(res, tier, seed):
    c = prepare('C11', res)
    n = 400 if tier == 'quick' else 12000
    stats, samples = run_kapi(c, res, 'C11', 'handles', n, 45 if tier == 'quick' else 65, seed, 'monitor_c11')
    # handles die only through close / logout / destroy: a call that FAILS must not take an object (and its handle) with it.
    # The K-reject stream (C09) is read for exactly that: objects that disappeared behind a rejected call.  The driver leaves
    # the handle of the object created last in the output variable of every creating call (an application may).
    st2, distinct2, samples2 = run_kcrypto(c, res, 'C11', 'seq_reject', 100 if tier == 'quick' else 2500, seed, stream='K-reject', accept=lambda m: 'disappeared' in m)
    res.coverage.update({'evaluations': stats['ops'] + st2['calls'], 'distinct_nontrivial': stats['distinct_traces'] + distinct2, 'rule': (RULE % 'handles') + '; K-reject: rejected creating / changing calls must not make any object disappear',
                         'samples': samples, 'k_api': stats, 'k_reject': st2, 'traces_validated_against_impl': stats['sequences'] + st2['sequences']})
    run_khandle(c, res, 'C11', tier, seed)
    finish_proof_side(c, res, 'C11')


RULE = 'model-guided random call sequences over 2 tokens and up to ~8 sessions (%s profile of tools/genapi.py); a trace is non-trivial when at least 3 calls after the prelude succeed; distinct = distinct (op, rv) sequences'
CHECKS = {'C03': check_C03, 'C07': check_C07, 'C05': check_C05, 'C09': check_C09, 'C16': check_C16, 'C14': check_C14, 'C17': check_C17, 'C20': check_C20, 'C15': check_C15, 'C06': check_C06, 'C18': check_C18, 'C12': check_C12, 'C02': attr_check('C02'), 'C08': attr_check('C08'), 'C10': check_C10, 'C13': check_C13,
          'C01': check_C01,
          'C04': kapi_check('C04', 'pins', 'monitor_c03', RULE % 'pins'),
          'C11': check_C11,
          'C19': kapi_check('C19', 'find', 'monitor_c19', RULE % 'find')}


def replay(pid, path):
    """re-run what a replay file records on the CURRENT tree and say whether it still fails (exit 1) or not (exit 0)"""
    import json as _json
    rec = _json.load(open(path))
    r = rec.get('replay', {})
    kind = r.get('kind', '')
    print('replaying %s (%s): %s' % (path, kind, rec.get('summary', '')[:200]))
    res = vlib.Result(pid, 'replay', int(r.get('seed', 1) or 1))
    c = prepare(pid, res)
    failed = None
    if kind == 'proof':
        failed = bool(c.broken)
        print('proof side now: %s' % ('BROKEN: ' + c.broken[0][:300] if c.broken else 'all obligations of coq/props/Properties_%s.v check' % pid))
    elif kind in ('store-fail', 'store-kill'):
        shim = c.harness['fsshim']
        tpl, blob = kstore.build_template(c.lib, c.harness['p11drv'], shim)
        try:
            names = [s['name'] for s in kstore.scenarios(blob)]
            i = names.index(r['scenario'])
            f = r.get('fault', {})
            if kind == 'store-fail':
                out = kstore.fail_case((c.lib, c.harness['p11drv'], shim, tpl.dir, i, blob, f['func'], int(f['n'])))
            else:
                ref = kstore.reference_run(c.lib, c.harness['p11drv'], shim, tpl.dir, kstore.scenarios(blob)[i])
                out = kstore.kill_case((c.lib, c.harness['p11drv'], shim, tpl.dir, i, blob, int(f['k']), ref, vlib.build_ocaml('codecdrv', 'codec_model', 'codecdrv.ml')))
            for pr, m in out['findings']:
                print('  %s: %s' % (pr, m[:300]))
            failed = any(pr in (pid, 'K-codec') for pr, m in out['findings'])
        finally:
            tpl.close()
    elif kind == 'thread-schedule':
        s1, s2 = kthread.run(c.harness['thrdrv'], c.lib, r['scenario'], -1), kthread.run(c.harness['thrdrv'], c.lib, r['scenario'], -2)
        out = kthread.thread_case((c.harness['thrdrv'], c.lib, r['scenario'], int(r['stop_A_before_LockMutex']), [s1, s2]))
        print('  observed now: %s' % out['raw'])
        failed = bool(out['findings'])
    elif kind == 'thread-stress':
        outs = [kthread.stress_case((c.harness['thrdrv'], c.lib, int(r['threads']), int(r['iterations']), i, r.get('mode', 'stress'))) for i in range(10)]
        bad = [o for o in outs if o['finding']]
        print('  10 stress runs now: %d failed%s' % (len(bad), (': ' + bad[0]['finding'][:200]) if bad else ''))
        failed = bool(bad)
    elif r.get('ops'):
        ops = [o.split(':', 1)[1] if o[:2] in ('A:', 'B:') else o for o in r['ops']]
        with_model = kind == 'correspondence' and r.get('stream', '').startswith('K-api')
        trace, dis = replay_sequence(c, ops, True if with_model else None, core_driver() if with_model else None)
        for (l, rr) in trace[-12:]:
            print('  %s  =>  %s' % (l[:110], rr.get('line', '').strip()[:160]))
        if with_model:
            failed = dis['first'] is not None
            print('  model vs implementation now: %s' % ('differ at op %d: %s' % dis['first'] if dis['first'] else 'agree on all %d compared calls' % dis['compared']))
        else:
            died = any(rr.get('rv') in ('DIED', 'HANG') for _, rr in trace)
            alarms = []
            for mn in ('monitor_c01', 'monitor_c03', 'monitor_c11', 'monitor_c19'):
                try:
                    alarms += [m for _, m in getattr(monitors, mn)(trace)]
                except Exception:
                    pass
            msg = r.get('message', '')
            failed = died or (msg in alarms if kind == 'monitor' else None)
            if failed is None:
                print('  (the recorded calls were re-run and printed above; this kind of finding is re-judged by running the check itself)')
    else:
        print('  nothing executable is recorded for this kind of replay; run the check itself')
    if failed:
        print('VIOLATION property=%s replay=%s' % (pid, path))
        return 1
    print('replay: %s' % ('not reproduced on the current tree' if failed is False else 'inconclusive'))
    return 0


def main():
    if len(sys.argv) < 2:
        print('usage: check.py <ID> [quick|thorough]')
        return 2
    pid = sys.argv[1]
    if len(sys.argv) > 3 and sys.argv[2] == '--replay':
        return replay(pid, sys.argv[3])
    tier = sys.argv[2] if len(sys.argv) > 2 and not sys.argv[2].startswith('--') else os.environ.get('VERIF_TIER', 'quick')
    seed = int(os.environ.get('VERIF_SEED', '1'))
    res = vlib.Result(pid, tier, seed)
    try:
        CHECKS[pid](res, tier, seed)
    except Exception as e:
        traceback.print_exc()
        sys.stderr.write('check %s could not run: %s\n' % (pid, e))
        res.coverage.setdefault('obligations', 1)
        res.coverage.setdefault('discharged', 0)
        res.coverage.setdefault('checker_cmd', 'n/a (check aborted)')
        res.coverage.setdefault('trusted_base', [])
        res.coverage['aborted'] = str(e)[:2000]
        # a check that cannot run to its end has not shown the property: on a changed tree this is how a model that no longer
        # builds against the regenerated code (or a driver that no longer links) shows up - reported, not swallowed
        res.violation('%s: the check could not run to its end: %s' % (pid, str(e).strip().splitlines()[-1][:300] if str(e).strip() else type(e).__name__),
                      {'kind': 'aborted', 'names': 'the machinery of %s (model build, extraction, driver or harness) no longer runs on this tree' % pid, 'error': traceback.format_exc()[-4000:]}, no_input=True)
        return res.finish()
    return res.finish()


if __name__ == '__main__':
    sys.exit(main())
