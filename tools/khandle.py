"""K-handle: correspondence of coq/Conc/HandleLife.v with HandleManager compiled from /repo's current source.
Random operation sequences (one PRNG seeded by VERIF_SEED) are run by harness/hmdrv (HandleManager.cpp, Handle.cpp,
MutexFactory.cpp, osmutex.cpp of the working tree) and by the model inside coqc (`vm_compute`, one Example per sequence
whose right-hand side is what the implementation printed).  A sequence on which they differ is the replay."""
import os, random, re
import vlib

LIB = os.path.join(vlib.REPO, 'src', 'lib')


def build(build_dir):
    dst = os.path.join(vlib.BIN, 'hmdrv')
    srcs = [os.path.join(vlib.ROOT, 'harness', 'hmdrv.cpp')] + [os.path.join(LIB, p) for p in
            ('handle_mgr/HandleManager.cpp', 'handle_mgr/Handle.cpp', 'common/MutexFactory.cpp', 'common/osmutex.cpp')]
    deps = srcs + [os.path.join(LIB, p) for p in ('handle_mgr/HandleManager.h', 'handle_mgr/Handle.h', 'common/MutexFactory.h')]
    key = vlib.file_hash(deps)
    with vlib.Lock('hmdrv'):
      if not (os.path.exists(dst) and os.path.exists(dst + '.key') and open(dst + '.key').read() == key):
          inc = ['-I' + build_dir] + ['-I' + os.path.join(LIB, d) for d in ('', 'common', 'handle_mgr', 'pkcs11')]
          rc, o, e = vlib.sh(['g++', '-O1', '-std=c++11', '-o', dst] + srcs + inc + ['-lpthread'], timeout=300)
          if rc != 0:
              raise RuntimeError('hmdrv build failed: ' + e[-2000:])
          open(dst + '.key', 'w').write(key)
    return dst


def atomicity(src=None):
    """the modelling decision `every public method of HandleManager is one atomic step` read off the current source: in
    every method body `MutexLocker lock(` comes before the first use of handles / objects / handleCounter.
    Returns (methods checked, [methods where it does not])."""
    text = open(src or os.path.join(LIB, 'handle_mgr', 'HandleManager.cpp')).read()
    text = re.sub(r'//[^\n]*', '', text)
    text = re.sub(r'/\*.*?\*/', '', text, flags=re.S)
    seen, bad = [], []
    for m in re.finditer(r'^[^\n;{}]*\bHandleManager::(~?\w+)\s*\([^)]*\)\s*\{(.*?)^\}', text, re.S | re.M):
        name, body = m.group(1), m.group(2)
        if name in ('HandleManager', '~HandleManager'):
            continue
        seen.append(name)
        use = re.search(r'\b(handles|objects|handleCounter)\b', body)
        lock = re.search(r'\bMutexLocker\s+\w+\s*\(', body)
        if use and (not lock or lock.start() > use.start()):
            bad.append(name)
    return seen, bad


def gen(rng, n):
    """mostly-valid sequences: a few slots, a small pool of object pointers (so re-registration and the slot-mismatch
    branch are met), handles aimed at values already issued"""
    seqs = []
    for _ in range(n):
        ops, issued, ln = [], 0, rng.randint(3, 16)
        for _ in range(ln):
            k = rng.choice('ssooottddcccal')
            slot = rng.choice((5, 5, 6, 7))
            hv = rng.randint(1, issued + 1) if issued and rng.random() < 0.9 else rng.randint(0, issued + 3)
            if k == 's':
                ops.append(('s', slot, 100 + len(ops))); issued += 1
            elif k == 'o':
                ops.append(('o', slot, hv, rng.randint(0, 1), rng.choice((200, 201, 202, 203)))); issued += 1
            elif k == 't':
                ops.append(('t', slot, rng.randint(0, 1), rng.choice((200, 201, 202, 203, 204)))); issued += 1
            else:
                ops.append((k, slot if k in 'al' else hv))
        seqs.append(ops)
    return seqs


# fixed cases run first: the two examples proved in HandleLife.v / HandleLifeFacts.v (so the implementation is shown to do
# what those Examples say) 
CORPUS = [[('s', 5, 100), ('o', 5, 1, 0, 200), ('s', 6, 101), ('c', 1), ('t', 5, 0, 200)],
          [('t', 5, 0, 200), ('t', 6, 0, 200), ('t', 6, 0, 200), ('d', 1), ('t', 6, 0, 200)]]


def coq_op(o):
    k = o[0]
    if k == 's': return 'AddSession %d %d' % (o[1], o[2])
    if k == 'o': return 'AddObject %d %d %s %d' % (o[1], o[2], 'true' if o[3] else 'false', o[4])
    if k == 't': return 'AddObject %d 0 %s %d' % (o[1], 'true' if o[2] else 'false', o[3])
    return {'d': 'DestroyObject', 'c': 'SessionClosed', 'a': 'AllSessionsClosed', 'l': 'TokenLoggedOut'}[k] + ' %d' % o[1]


def run(build_dir, seed, n):
    """returns (coverage dict, list of disagreements [{ops, impl, why}])"""
    drv = build(build_dir)
    rng = random.Random('khandle-%s' % seed)
    seqs = [list(c) for c in CORPUS] + gen(rng, n)
    text = '\n'.join(' '.join(' '.join(str(x) for x in o) for o in ops) for ops in seqs) + '\n'
    rc, out, err = vlib.sh([drv], input=text, timeout=120)
    lines = out.strip().split('\n')
    bad = []
    if rc != 0 or len(lines) != len(seqs):
        return {'sequences': 0, 'error': 'hmdrv rc=%s %s' % (rc, err[-300:])}, [{'ops': [], 'impl': out[-300:], 'why': 'driver failed'}]
    work = os.path.join(vlib.CACHE, 'khandle', str(os.getpid()))
    os.makedirs(work, exist_ok=True)
    body = ['From Coq Require Import List NArith Bool.', 'From SoftHSM Require Import HandleLife.', 'Import ListNotations.',
            'Local Open Scope N_scope.',
            'Fixpoint outs (m : mgr) (xs : list op) : list N * mgr := match xs with [] => ([], m) | x :: r => '
            'let (m1, h) := step m x in let (hs, m2) := outs m1 r in (h :: hs, m2) end.',
            'Definition obs (xs : list op) := let (hs, m) := outs init xs in (hs, rev (map eh (handles m)), ctr m + 1).']
    first_line = len(body) + 1
    reuse = 0
    for i, (ops, ln) in enumerate(zip(seqs, lines)):
        m = re.match(r'rv((?: \d+)*) live((?: \d+)*) next (\d+)$', ln)
        if not m:
            bad.append({'ops': ops, 'impl': ln, 'why': 'unparsable driver output'}); body.append('(* skipped *)'); continue
        rv = [int(x) for x in m.group(1).split()]
        if any(r == 0 for (o, r) in zip(ops, rv) if o[0] in 'ot'):
            reuse += 1
        body.append('Example c%d : obs [%s] = ([%s], [%s], %s). Proof. vm_compute. reflexivity. Qed.' % (
            i, '; '.join(coq_op(o) for o in ops), '; '.join(str(r) for r in rv), '; '.join(m.group(2).split()), m.group(3)))
    src = os.path.join(work, 'HandleCases.v')
    todo = list(range(len(seqs)))
    rounds = 0
    while rounds < 4:                                # report up to three disagreeing sequences
        rounds += 1
        open(src, 'w').write('\n'.join(body) + '\n')
        rc, o, e = vlib.sh(['coqc', '-Q', 'Conc', 'SoftHSM', src], cwd=vlib.COQ, timeout=600)
        if rc == 0:
            break
        mm = re.search(r'line (\d+)', e)
        if not mm:
            bad.append({'ops': [], 'impl': e[-400:], 'why': 'coqc failed on the cases file'}); break
        idx = int(mm.group(1)) - first_line
        if not (0 <= idx < len(seqs)):
            bad.append({'ops': [], 'impl': e[-400:], 'why': 'coqc failed outside the cases (model HandleLife.v does not compile?)'}); break
        bad.append({'ops': [' '.join(str(x) for x in o) for o in seqs[idx]], 'impl': lines[idx], 'why': 'model HandleLife.obs differs from HandleManager on this sequence',
                    'coq_case': body[first_line - 1 + idx]})
        body[first_line - 1 + idx] = '(* differs *)'
    kinds = {}
    for ops in seqs:
        for o in ops:
            kinds[o[0]] = kinds.get(o[0], 0) + 1
    import shutil
    shutil.rmtree(work, ignore_errors=True)
    seen, unlocked = atomicity()
    for name in unlocked:
        bad.append({'ops': [], 'impl': 'HandleManager::%s touches handles / objects / handleCounter before (or without) taking handlesMutex' % name,
                    'why': 'the atomic-step assumption of HandleLife.v does not hold of HandleManager::%s (no-failing-input-found by this stream; K-thread searches for the schedule)' % name, 'no_input': True})
    if len(seen) < 9:
        bad.append({'ops': [], 'impl': 'methods found: %s' % seen, 'why': 'HandleManager.cpp no longer has the methods HandleLife.v models', 'no_input': True})
    cov = {'sequences': len(seqs), 'ops': sum(kinds.values()), 'ops_by_kind': kinds, 'sequences_meeting_the_mismatch_branch': reuse,
           'compared': 'every returned value, the set of live handle values (getSession / getObject probes over 1..max+2) and the next fresh handle',
           'methods_checked_to_lock_first': seen, 'model_run_by': 'coqc vm_compute (one Example per sequence)'}
    return cov, bad
