#!/bin/bash
# confirm a seeded change: usage confirm_seed.sh <seed dir with patch.diff + demo.cpp> ...
# Uses ONE scratch worktree /tmp/confirm_wt of /repo HEAD (incremental build), never /repo itself.
# For each seed: apply -> build (with tests) -> repository test suite vs BASELINE -> demo must FAIL;
# then revert -> rebuild -> demo must PASS.  Prints one summary line per seed.
WT=/tmp/confirm_wt
if [ ! -d $WT ]; then git -C /repo worktree add -q --detach $WT HEAD || exit 1; fi
cd $WT && git checkout -q --detach $(git -C /repo rev-parse HEAD) && git checkout -- . 
if [ ! -f $WT/_build/build.ninja ]; then cmake -G Ninja -B $WT/_build -DBUILD_TESTS=ON -DENABLE_P11_KIT=OFF $WT >/tmp/confirm_cmake.log 2>&1 || { echo "cmake failed"; exit 1; }; fi
for d in "$@"; do
  name=$(basename $d)
  cd $WT && git checkout -- . 
  if ! git apply $d/patch.diff; then echo "SEED $name: patch does not apply"; continue; fi
  if ! cmake --build _build -j12 >/tmp/confirm_build_$name.log 2>&1; then echo "SEED $name: does not compile"; git checkout -- .; continue; fi
  python3 /verif/tools/run_baseline.py $WT/_build > /tmp/confirm_tests_$name.log 2>&1; trc=$?
  g++ -std=c++11 -I $WT/src/lib/pkcs11 -o /tmp/confirm_demo_$name $d/demo.cpp -ldl -lcrypto >/tmp/confirm_demoBuild_$name.log 2>&1 || { echo "SEED $name: demo does not build"; git checkout -- .; continue; }
  (cd /tmp && timeout 300 /tmp/confirm_demo_$name $WT/_build/src/lib/libsofthsm2.so > /tmp/confirm_demoWith_$name.log 2>&1); with=$?
  git checkout -- .
  cmake --build _build -j12 >/tmp/confirm_build2_$name.log 2>&1
  (cd /tmp && timeout 300 /tmp/confirm_demo_$name $WT/_build/src/lib/libsofthsm2.so > /tmp/confirm_demoWithout_$name.log 2>&1); without=$?
  echo "SEED $name: baseline_tests_exit=$trc ($(head -1 /tmp/confirm_tests_$name.log)) demo_with_change_exit=$with demo_without_exit=$without"
done
