#!/bin/bash
# run checks on the clean tree under several seeds and show anything that is not quiet.  usage: tools/soak.sh "<ids>" "<seeds>" [tier]
cd "$(dirname "$0")/.."
if [ -n "$(git -C /repo status --porcelain --untracked-files=no)" ]; then echo "/repo working tree is modified: not running" >&2; exit 2; fi
tier=${3:-quick}
for seed in $2; do for p in $1; do
  out=$(VERIF_SEED=$seed tools/check $p $tier 2>&1); rc=$?
  echo "seed=$seed $p rc=$rc violations=$(echo "$out" | grep -c '^VIOLATION') known=$(echo "$out" | grep -c '^KNOWN-FINDING')"
  [ $rc -ne 0 ] && echo "$out" | grep '^violation\|^VIOLATION' | head -4
done; done
