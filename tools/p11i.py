#!/usr/bin/env python3
"""interactive wrapper around harness/p11drv (one op per call) with its own token directory"""
import os, subprocess, shutil
import vlib, kapi


class P11:
    DEFAULT_BACKEND = 'file'      # objectstore.backend used when the caller does not say
    EXTRA_ENV = {}      # merged into the environment of every driver process (e.g. the sanitizer runtime for the asan build)

    def __init__(self, p11drv, lib, mechanisms=None, backend=None, umask=None, env_extra=None, keep=False, reuse=None):
        backend = backend or P11.DEFAULT_BACKEND
        if reuse:
            self.dir = reuse
            keep = True
            self.conf = os.path.join(reuse, 'softhsm2.conf')
            if not os.path.exists(self.conf):
                self.conf = vlib.write_conf(self.dir, backend=backend, mechanisms=mechanisms, umask=umask)
        else:
            self.dir = vlib.mktmp()
            self.conf = vlib.write_conf(self.dir, backend=backend, mechanisms=mechanisms, umask=umask)
        env = dict(os.environ)
        env['SOFTHSM2_CONF'] = self.conf
        env.update(P11.EXTRA_ENV)
        if env_extra:
            env.update(env_extra)
        self.errpath = os.path.join(self.dir, 'stderr.%d.log' % id(self))
        self.errf = open(self.errpath, 'w')
        self.p = subprocess.Popen([p11drv, lib, '-'], stdin=subprocess.PIPE, stdout=subprocess.PIPE, stderr=self.errf, text=True, errors='replace', bufsize=1, env=env)
        self.trace = []
        self.timeout = 120
        self.keep = keep

    def op(self, line):
        try:
            self.p.stdin.write(line + '\n')
            self.p.stdin.flush()
            import select
            rd, _, _ = select.select([self.p.stdout], [], [], self.timeout)
            out = self.p.stdout.readline() if rd else 'HANG'
        except (BrokenPipeError, OSError):
            out = ''
        if out == 'HANG':
            self.p.kill()
            r = {'rv': 'HANG', 'line': ''}
            self.trace.append((line, r))
            return r
        if not out.strip():
            r = {'rv': 'DIED', 'line': out}
        else:
            try:
                r = kapi.parse_real_line(out)
            except Exception:
                r = {'rv': '?', 'line': out}
        self.trace.append((line, r))
        return r

    def stderr_text(self):
        try:
            self.errf.flush()
            return open(self.errpath, errors='replace').read()
        except OSError:
            return ''

    def alive(self):
        return self.p.poll() is None

    def send(self, line):
        """start an op without waiting for its answer (the call may be paused by the shim); recv() collects it"""
        self._pending = line
        self.p.stdin.write(line + '\n')
        self.p.stdin.flush()

    def recv(self):
        import select
        line = self._pending
        rd, _, _ = select.select([self.p.stdout], [], [], self.timeout)
        out = self.p.stdout.readline() if rd else ''
        if not out.strip():
            r = {'rv': 'DIED' if rd else 'HANG', 'line': out}
        else:
            try:
                r = kapi.parse_real_line(out)
            except Exception:
                r = {'rv': '?', 'line': out}
        self.trace.append((line, r))
        return r

    def rv(self, line):
        r = self.op(line)
        try:
            return int(r.get('rv', '-1'), 16)
        except ValueError:
            return -1

    def attr(self, sess, obj, atype, size=4096):
        """value bytes of one attribute, or None"""
        r = self.op('getattr %s %s 0x%x:%d' % (sess, obj, atype, size))
        if r.get('rv') != '0x0' or not r.get('attrs'):
            return None
        t, ln, hx = r['attrs'][0]
        if ln == '-1':
            return None
        return bytes.fromhex(hx)

    def close(self):
        try:
            self.p.stdin.close()
            self.p.wait(timeout=10)
        except Exception:
            self.p.kill()
        try:
            self.errf.close()
            if self.keep:
                os.remove(self.errpath)
        except OSError:
            pass
        if not self.keep:
            shutil.rmtree(self.dir, ignore_errors=True)

    def tokendir(self):
        return os.path.join(self.dir, 'tokens')
