#!/bin/bash
# apply every seeded change to /repo in turn, run the check of its property (quick), record whether it is reported;
# /repo is restored after each.  usage: tools/seed_matrix.sh [seed ids...]   -> seeded/RESULTS.txt
cd "$(dirname "$0")/.."
ids="$@"; [ -z "$ids" ] && ids=$(ls seeded | grep -E '^C[0-9]+-[a-z]$')
: > seeded/RESULTS.txt
for s in $ids; do
  p=${s%-*}
  if ! git -C /repo apply --check /verif/seeded/$s/patch.diff 2>/dev/null; then echo "$s: patch does not apply to the current /repo" | tee -a seeded/RESULTS.txt; continue; fi
  git -C /repo apply /verif/seeded/$s/patch.diff
  out=$(tools/check $p quick 2>&1); rc=$?
  git -C /repo checkout -- .
  v=$(echo "$out" | grep -c '^VIOLATION')
  first=$(echo "$out" | grep '^violation:' | head -1 | cut -c1-220)
  echo "$s: check $p exit=$rc violations=$v  $first" | tee -a seeded/RESULTS.txt
done
