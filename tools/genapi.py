#!/usr/bin/env python3
"""Model-guided generator of PKCS#11 call sequences (K-api).  Every random choice comes from one
random.Random seeded by the caller; the generator sees the model's answers, so that it knows which
handle names exist, and biases towards valid calls with a malformed / stale minority."""
import random

CKA = {'CLASS': 0, 'TOKEN': 1, 'PRIVATE': 2, 'LABEL': 3, 'APPLICATION': 0x10, 'VALUE': 0x11, 'OBJECT_ID': 0x12,
       'MODIFIABLE': 0x170, 'COPYABLE': 0x171, 'DESTROYABLE': 0x172, 'ID': 0x102, 'TRUSTED': 0x86}


def hx(b):
    return b.hex() if b else '.'


class Gen:
    def __init__(self, model, rng, profile='mixed', ntok=2, nocopy=False):
        self.nocopy = nocopy
        self.m = model
        self.r = rng
        self.profile = profile
        self.ntok = ntok
        self.ops = []          # text lines
        self.mres = []         # model results
        self.sessions = {}     # name -> (tok, rw)
        self.closed = []       # names of sessions closed earlier (for deliberate stale use)
        self.objects = {}      # name -> dict(tok, token, private, label)
        self.so = {}
        self.user = {}
        self.labelctr = 0
        self.dead = False      # model answered unmodelled: stop

    def emit(self, line):
        res = self.m.step(line)
        self.ops.append(line)
        self.mres.append(res)
        if res.get('unmodelled'):
            self.dead = True
        return res

    # -- building blocks
    def prelude(self, userpins=True):
        self.emit('init')
        for k in range(self.ntok):
            so = hx(bytes(self.r.choice(b'0123456789') for _ in range(self.r.randint(4, 9))))
            self.so[k] = so
            self.emit('inittoken tfree %s tok%d' % (so, k))
        for k in range(self.ntok):
            if userpins and (k == 0 or self.r.random() < 0.8):
                up = hx(bytes(self.r.choice(b'abcdefghij') for _ in range(self.r.randint(4, 9))))
                r = self.emit('open t%d rw' % k)
                h = r.get('h')
                self.emit('login %s 0 %s' % (h, self.so[k]))
                self.emit('initpin %s %s' % (h, up))
                self.user[k] = up
                self.emit('logout %s' % h)
                self.emit('close %s' % h)

    def any_session(self, stale_p=0.08):
        if self.sessions and self.r.random() > stale_p:
            return self.r.choice(sorted(self.sessions))
        if self.closed and self.r.random() < 0.6:
            return self.r.choice(self.closed[-6:])      # a handle that was closed earlier (stale use)
        return self.r.choice(['h%d' % self.r.randint(0, 40), '#%d' % self.r.randint(0, 60), '#0'])

    def any_object(self, stale_p=0.1):
        if self.objects and self.r.random() > stale_p:
            return self.r.choice(sorted(self.objects))
        return self.r.choice(['h%d' % self.r.randint(0, 40), '#%d' % self.r.randint(0, 60)])

    def tokname(self):
        k = self.r.randrange(self.ntok)
        return k, 't%d' % k

    def wrong_pin(self, pin):
        b = bytearray(bytes.fromhex(pin if pin != '.' else ''))
        c = self.r.randrange(6)
        if c == 0 and len(b) > 1:
            b = b[:-1]
        elif c == 1:
            b = b + b'x'
        elif c == 2 and b:
            i = self.r.randrange(len(b))
            b[i] ^= 1 << self.r.randrange(8)
        elif c == 3:
            b = bytearray(b'')
        elif c == 4:
            b = bytearray(b'\x00') + b
        else:
            b = bytearray(bytes(self.r.randrange(256) for _ in range(self.r.randint(1, 12))))
        if bytes(b).hex() == pin:
            b = b + b'\x01'
        return bytes(b).hex() if b else '.'

    # -- ops
    def op_open(self):
        k, t = self.tokname()
        mode = self.r.choice(['ro', 'rw', 'rw', 'ro', '2', '0'])
        r = self.emit('open %s %s' % (t if self.r.random() > 0.05 else self.r.choice(['tfree', '#12345']), mode))
        if r.get('h'):
            self.sessions[r['h']] = (k, mode == 'rw')

    def refresh_after_purge(self):
        """drop names the model no longer knows (cheap: probe with sinfo is not free; keep names, stale use is useful)"""
        pass

    def op_close(self):
        s = self.any_session()
        self.emit('close %s' % s)
        if s in self.sessions:
            self.sessions.pop(s, None)
            self.closed.append(s)

    def op_closeall(self):
        k, t = self.tokname()
        self.emit('closeall %s' % t)
        for s in [s for s, v in self.sessions.items() if v[0] == k]:
            self.sessions.pop(s)
            self.closed.append(s)

    def op_login(self):
        s = self.any_session()
        k = self.sessions.get(s, (self.r.randrange(self.ntok), True))[0]
        ut = self.r.choice([0, 1, 1, 1, 2, 3])
        pin = (self.so.get(k) if ut == 0 else self.user.get(k)) or self.so.get(k)
        c = self.r.random()
        if pin != '.' and len(pin) >= 2 * 255 and c < 0.4:
            pin = pin + '78'          # a maximum-length PIN with one more byte
        elif c < 0.25:
            pin = self.wrong_pin(pin)
        elif c < 0.3:
            pin = self.user.get(k, pin) if ut == 0 else self.so.get(k, pin)   # the other user's PIN
        elif c < 0.33:
            pin = 'null'
        self.emit('login %s %d %s' % (s, ut, pin))

    def op_logout(self):
        self.emit('logout %s' % self.any_session())

    def op_sinfo(self):
        self.emit('sinfo %s' % self.any_session())

    def op_sinfo_all(self):
        for s in sorted(self.sessions):
            self.emit('sinfo %s' % s)

    def op_initpin(self):
        s = self.any_session()
        k = self.sessions.get(s, (0, True))[0]
        n = self.r.choice([4, 5, 8, 3, 0, 255, 256, 12])
        pin = hx(bytes(self.r.choice(b'klmnopqrs') for _ in range(n))) if self.r.random() > 0.05 else 'null'
        r = self.emit('initpin %s %s' % (s, pin))
        if r.get('rv') == 0:
            self.user[k] = pin

    def op_setpin(self):
        s = self.any_session()
        k = self.sessions.get(s, (0, True))[0]
        which = self.r.choice(['user', 'so'])
        old = (self.user.get(k) if which == 'user' else self.so.get(k)) or self.so.get(k)
        if self.r.random() < 0.3:
            old = self.wrong_pin(old)
        n = self.r.choice([4, 6, 9, 3, 256, 255])
        new = hx(bytes(self.r.choice(b'tuvwxyz12') for _ in range(n)))
        r = self.emit('setpin %s %s %s' % (s, old if self.r.random() > 0.03 else 'null', new))
        if r.get('rv') == 0:
            # which PIN changed depends on the session state; ask the model by trying both is overkill:
            # remember both candidates, login attempts with either are informative anyway
            st = None
            q = self.emit('sinfo %s' % s)
            st = q.get('state')
            if st == 4:
                self.so[k] = new
            else:
                self.user[k] = new

    def op_inittoken(self):
        k, t = self.tokname()
        pin = self.so.get(k)
        c = self.r.random()
        if c < 0.3:
            pin = self.wrong_pin(pin)
        elif c < 0.35:
            pin = 'null'
        r = self.emit('inittoken %s %s tok%d' % (t, pin, k))
        if r.get('rv') == 0:
            self.user.pop(k, None)
            for o in [o for o, v in self.objects.items() if v['tok'] == k]:
                self.objects.pop(o)

    def new_label(self):
        self.labelctr += 1
        return ('L%03d' % self.labelctr).encode().hex()

    def data_template(self, token=None, private=None):
        token = self.r.random() < 0.5 if token is None else token
        private = self.r.random() < 0.5 if private is None else private
        lab = self.new_label()
        items = ['0=u:0']
        if token or self.r.random() < 0.5:
            items.append('1=b:%d' % (1 if token else 0))
        if (not private) or self.r.random() < 0.5:
            items.append('2=b:%d' % (1 if private else 0))
        items.append('3=x:%s' % lab)
        if self.r.random() < 0.7:
            items.append('0x11=x:%s' % bytes(self.r.randrange(256) for _ in range(self.r.choice([0, 1, 5, 16, 33]))).hex())
        if self.r.random() < 0.3:
            items.append('0x10=x:%s' % self.r.choice(['', '617070', '6170706c']))
        if self.r.random() < 0.15:
            items.append('0x170=b:%d' % self.r.randint(0, 1))
        if self.r.random() < 0.1:
            items.append('0x171=b:%d' % self.r.randint(0, 1))
        if self.r.random() < 0.1:
            items.append('0x172=b:%d' % self.r.randint(0, 1))
        self.r.shuffle(items)
        return items, token, private, lab

    def op_create(self, bad_p=0.12):
        s = self.any_session()
        items, token, private, lab = self.data_template()
        c = self.r.random()
        if c < bad_p:
            bad = self.r.choice(['0x100=u:31', '0x162=b:1', '3=N:4', '1=x:0101', '0=u:0', '0x90=x:aabbcc', '0x170=x:'])
            items.insert(self.r.randrange(len(items) + 1), bad)
        r = self.emit('create %s %s' % (s, ' '.join(items)))
        if r.get('h'):
            k = self.sessions.get(s, (0, True))[0]
            self.objects[r['h']] = {'tok': k, 'token': token, 'private': private, 'label': lab}

    def op_destroy(self):
        o = self.any_object()
        r = self.emit('destroy %s %s' % (self.any_session(), o))
        if r.get('rv') == 0:
            self.objects.pop(o, None)

    def op_getattr(self):
        o = self.any_object()
        q = []
        for _ in range(self.r.randint(1, 4)):
            a = self.r.choice([0, 1, 2, 3, 3, 0x11, 0x11, 0x10, 0x12, 0x170, 0x171, 0x172, 0x100, 0x86])
            b = self.r.choice(['null', '0', '1', '4', '8', '64', '64'])
            q.append('0x%x:%s' % (a, b))
        self.emit('getattr %s %s %s' % (self.any_session(), o, ' '.join(q)))

    def op_setattr(self):
        o = self.any_object()
        items = []
        for _ in range(self.r.randint(1, 3)):
            c = self.r.random()
            if c < 0.5:
                items.append('3=x:%s' % self.new_label())
            elif c < 0.6:
                items.append('0x11=x:%s' % bytes(self.r.randrange(256) for _ in range(4)).hex())
            elif c < 0.7:
                items.append('0x170=b:%d' % self.r.randint(0, 1))
            elif c < 0.8:
                items.append('2=b:%d' % self.r.randint(0, 1))
            elif c < 0.9:
                items.append('0x10=x:6e6577')
            else:
                items.append(self.r.choice(['0x100=u:31', '0=u:0', '0x171=b:0', '0x172=b:0', '0x12=x:0102']))
        self.emit('setattr %s %s %s' % (self.any_session(), o, ' '.join(items)))

    def op_copy(self):
        o = self.any_object()
        s = self.any_session()
        items = []
        items.append('3=x:%s' % self.new_label())      # copies are always relabelled: labels identify objects
        if self.r.random() < 0.4:
            items.append('1=b:%d' % self.r.randint(0, 1))
        if self.r.random() < 0.4:
            items.append('2=b:%d' % self.r.randint(0, 1))
        if self.r.random() < 0.1:
            items.append(self.r.choice(['0x11=x:00', '0x100=u:31', '0x170=b:0', '0x171=b:1']))
        if self.nocopy:
            return
        r = self.emit('copy %s %s %s' % (s, o, ' '.join(items)))
        if r.get('h'):
            k = self.sessions.get(s, (0, True))[0]
            self.objects[r['h']] = {'tok': k, 'token': None, 'private': None, 'label': None}

    def op_crosslogout(self):
        """directed (C14 / C19 / C11): the normal user is logged in on two tokens, each has private session and token objects;
        one token logs out (or closes all its sessions): the OTHER token's objects, handles and searches are untouched"""
        if self.ntok < 2 or any(k not in self.user for k in (0, 1)):
            return
        ss = {}
        for k in (0, 1):
            q = self.emit('open t%d rw' % k)
            if not q.get('h'):
                return
            ss[k] = q['h']
            self.sessions[q['h']] = (k, True)
            self.emit('login %s 1 %s' % (q['h'], self.user[k]))
            for (tok, priv) in ((0, 1), (1, 1), (0, 0)):
                lab = self.new_label()
                r = self.emit('create %s 0=u:0 1=b:%d 2=b:%d 3=x:%s 0x11=x:%s' % (q['h'], tok, priv, lab, lab))
                if r.get('h'):
                    self.objects[r['h']] = {'tok': k, 'token': bool(tok), 'private': bool(priv), 'label': lab}
        a = self.r.randrange(2)
        self.emit(self.r.choice(['logout %s' % ss[a], 'logout %s' % ss[a], 'closeall t%d' % a]))
        b = 1 - a
        self.emit('sinfo %s' % ss[b])
        self.emit('findinit %s %s' % (ss[b], self.r.choice(['', '2=b:1', '1=b:0'])))
        self.emit('findseq %s %s' % (ss[b], self.r.choice(['2000', '1 2 2000', '3 2000'])))
        self.emit('findfinal %s' % ss[b])
        self.op_probe()

    def op_copyflip(self):
        """directed (C11 / C01): a copy whose privacy or storage differs from its source, then a logout / close, then every
        handle is probed: a handle lives and dies with the object it denotes, not with the one it was copied from"""
        k = self.r.randrange(self.ntok)
        if k not in self.user:
            return
        q = self.emit('open t%d rw' % k)
        s = q.get('h')
        if not s:
            return
        self.sessions[s] = (k, True)
        self.emit('login %s 1 %s' % (s, self.user[k]))
        tok, priv = self.r.choice([(1, 0), (1, 0), (1, 1), (0, 0), (0, 1)])
        lab = self.new_label()
        r = self.emit('create %s 0=u:0 1=b:%d 2=b:%d 3=x:%s 0x11=x:%s' % (s, tok, priv, lab, lab))
        if not r.get('h'):
            return
        self.objects[r['h']] = {'tok': k, 'token': bool(tok), 'private': bool(priv), 'label': lab}
        items = ['3=x:%s' % self.new_label(), '2=b:%d' % (1 - priv if self.r.random() < 0.8 else priv)]
        if self.r.random() < 0.4:
            items.append('1=b:%d' % (1 - tok))
        self.r.shuffle(items)
        c = self.emit('copy %s %s %s' % (s, r['h'], ' '.join(items)))
        if c.get('h'):
            self.objects[c['h']] = {'tok': k, 'token': None, 'private': None, 'label': None}
        how = self.r.random()
        if how < 0.6:
            self.emit('logout %s' % s)
        elif how < 0.8:
            self.emit('close %s' % s)
            self.sessions.pop(s, None)
            self.closed.append(s)
        self.op_probe()
        if self.r.random() < 0.5 and s in self.sessions:
            self.emit('login %s 1 %s' % (s, self.user[k]))
            self.op_probe()

    def op_find(self):
        s = self.any_session()
        items = []
        c = self.r.random()
        if self.r.random() < 0.12:
            # an attribute the data objects do not have, before or after one they have: such a template matches nothing
            absent = self.r.choice(['0x100=u:31', '0x102=x:01', '0x103=b:0', '0x104=b:1', '0x162=b:1'])
            has = self.r.choice(['0=u:0', '1=b:1', '1=b:0', '2=b:0', '3=x:%s' % (self.objects[self.r.choice(sorted(self.objects))].get('label') or '') if self.objects else '0=u:0'])
            items = [absent, has] if self.r.random() < 0.7 else [has, absent]
            c = 2.0
        if c >= 2.0:
            pass
        elif c < 0.4:
            pass
        elif c < 0.6 and self.objects:
            o = self.objects[self.r.choice(sorted(self.objects))]
            if o.get('label'):
                items.append('3=x:%s' % o['label'])
        elif c < 0.75:
            items.append('1=b:%d' % self.r.randint(0, 1))
        elif c < 0.85:
            items.append('2=b:%d' % self.r.randint(0, 1))
        elif c < 0.9:
            items += ['0=u:0', '1=b:1']
        else:
            items.append(self.r.choice(['0x100=u:31', '3=x:', '0x10=x:617070', '0=u:3', '1=x:0101', '0x11=x:']))
        sizes = [self.r.choice([0, 1, 2, 3, 50]) for _ in range(self.r.randint(1, 4))] + [2000]
        if self.r.random() < 0.15:
            # a search that is not read to its end.  C_FindObjectsInit gives handles to every object it matches; the order
            # in which it registers objects it sees for the first time is not a function of the history (DESIGN.md 2.4) and
            # is taken from what the search returns - so everything visible is registered by a complete search first
            sizes = sizes[:1]
            self.emit('findinit %s' % s)
            self.emit('findseq %s 2000' % s)
            self.emit('findfinal %s' % s)
        r = self.emit('findinit %s %s' % (s, ' '.join(items)))
        self.emit('findseq %s %s' % (s, ' '.join('%d' % z for z in sizes)))
        if self.r.random() < 0.9:
            self.emit('findfinal %s' % s)

    def op_probe(self):
        """probe every handle name ever bound (C11): sessions with sinfo, everything with objsize through a live session"""
        n = len(self.m.names)
        for k in range(n):
            self.emit('sinfo h%d' % k)
        live = None
        for s in sorted(self.sessions):
            q = self.emit('sinfo %s' % s)
            if q.get('rv') == 0:
                live = s
                break
        if live:
            for k in range(n):
                self.emit('objsize %s h%d' % (live, k))

    def op_matrix(self):
        """directed walk of the access matrix (C01): four object kinds created as user, then every
        handle-taking call from one of the five session states, on old and freshly found handles"""
        k = self.r.randrange(self.ntok)
        if k not in self.user:
            return
        r = self.emit('open t%d rw' % k)
        s = r.get('h')
        if not s:
            return
        self.sessions[s] = (k, True)
        self.emit('login %s 1 %s' % (s, self.user[k]))
        made = []
        for tok in (1, 0):
            for priv in (1, 0):
                lab = self.new_label()
                q = self.emit('create %s 0=u:0 1=b:%d 2=b:%d 3=x:%s 0x11=x:%s' % (s, tok, priv, lab, bytes(self.r.randrange(256) for _ in range(5)).hex()))
                if q.get('h'):
                    made.append(q['h'])
                    self.objects[q['h']] = {'tok': k, 'token': bool(tok), 'private': bool(priv), 'label': lab}
        self.emit('logout %s' % s)
        target = self.r.choice(['ro_public', 'rw_public', 'ro_user', 'rw_user', 'so', 'so'])
        use = s
        if target in ('ro_public', 'ro_user'):
            q = self.emit('open t%d ro' % k)
            if q.get('h'):
                use = q['h']
                self.sessions[use] = (k, False)
        if target in ('ro_user', 'rw_user'):
            self.emit('login %s 1 %s' % (s, self.user[k]))
        if target == 'so':
            q = self.emit('login %s 0 %s' % (s, self.so[k]))
            if q.get('rv') != 0:
                self.emit('closeall t%d' % k)
                for x in [x for x, v in self.sessions.items() if v[0] == k]:
                    self.sessions.pop(x)
                q = self.emit('open t%d rw' % k)
                use = s = q.get('h')
                if not s:
                    return
                self.sessions[s] = (k, True)
                self.emit('login %s 0 %s' % (s, self.so[k]))
        self.emit('sinfo %s' % use)
        self.emit('findinit %s' % use)
        q = self.emit('findseq %s 2000' % use)
        self.emit('findfinal %s' % use)
        names = list(made)
        if q.get('objs') is not None:
            names += ['h%d' % n for n in q['objs'] if 'h%d' % n not in names]
        for n in names:
            if self.dead:
                return
            self.emit('getattr %s %s 3:16 0x11:16 2:1' % (use, n))
            self.emit('setattr %s %s 3=x:%s' % (use, n, self.new_label()))
            if not self.nocopy:
                self.emit('copy %s %s 3=x:%s' % (use, n, self.new_label()))
            self.emit('%s %s 0x1081 %s' % (self.r.choice(['encinit', 'decinit', 'signinit', 'verifyinit']), use, n))
            self.emit('objsize %s %s' % (use, n))
        for n in names:
            if self.dead:
                return
            if self.r.random() < 0.5:
                self.emit('destroy %s %s' % (use, n))
                self.objects.pop(n, None)

    def op_restart(self):
        if self.r.random() < 0.5:
            self.emit('fini')
            self.emit('init')
        else:
            self.emit('newproc')
            self.emit('init')
        self.sessions, self.objects = {}, {}

    def op_useinit(self):
        self.emit('%s %s 0x1081 %s' % (self.r.choice(['encinit', 'decinit', 'signinit', 'verifyinit']), self.any_session(), self.any_object()))

    PROFILES = {
        'session': [('open', 22), ('close', 12), ('closeall', 4), ('login', 22), ('logout', 8), ('sinfo_all', 10), ('sinfo', 4),
                    ('initpin', 5), ('setpin', 6), ('inittoken', 5), ('restart', 2)],
        'objects': [('matrix', 6), ('open', 10), ('close', 5), ('closeall', 2), ('login', 12), ('logout', 5), ('create', 22), ('destroy', 7),
                    ('getattr', 12), ('setattr', 7), ('copy', 7), ('find', 10), ('sinfo', 2), ('restart', 2), ('inittoken', 1), ('copyflip', 3)],
        'handles': [('open', 14), ('close', 10), ('closeall', 3), ('login', 10), ('logout', 6), ('create', 20), ('destroy', 8),
                    ('copy', 5), ('find', 8), ('probe', 12), ('restart', 1), ('copyflip', 5), ('crosslogout', 3)],
        'find': [('open', 8), ('close', 3), ('login', 10), ('logout', 4), ('create', 30), ('destroy', 6), ('find', 30), ('setattr', 4),
                 ('copy', 4), ('restart', 2), ('closeall', 1), ('crosslogout', 3)],
        'tokens': [('inittoken', 14), ('open', 12), ('close', 6), ('closeall', 4), ('login', 12), ('logout', 5), ('create', 14), ('destroy', 4),
                   ('find', 8), ('getattr', 5), ('restart', 8), ('initpin', 4), ('setpin', 4), ('sinfo_all', 10), ('sinfo', 6), ('crosslogout', 4)],
        'persist': [('create', 25), ('destroy', 8), ('setattr', 6), ('copy', 6), ('restart', 12), ('close', 5), ('closeall', 3), ('open', 8),
                    ('login', 8), ('logout', 4), ('find', 12), ('getattr', 8)],
        'pins': [('open', 12), ('close', 5), ('login', 30), ('logout', 10), ('initpin', 10), ('setpin', 15), ('inittoken', 5), ('restart', 8),
                 ('sinfo_all', 4), ('create', 5), ('getattr', 5), ('find', 3)],
    }

    def run(self, n):
        table = self.PROFILES[self.profile]
        names = [a for a, _ in table]
        weights = [b for _, b in table]
        for _ in range(n):
            if self.dead:
                break
            if not self.sessions and 'open' in names and self.r.random() < 0.85:
                # without an open session nearly every call answers CKR_SESSION_HANDLE_INVALID: open one first
                self.op_open()
                continue
            getattr(self, 'op_' + self.r.choices(names, weights)[0])()
        return self.ops, self.mres
