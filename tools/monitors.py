#!/usr/bin/env python3
"""Property monitors over REAL traces of the library (list of (op line, result dict) in p11drv
syntax).  Each monitor is the property text read as a checker; it keeps its own bookkeeping of
what the application did (sessions it opened, PINs it set, objects it created) and never consults
the Coq model.  A monitor returns a list of (index, message)."""

OK = 0


def rv(r):
    v = r.get('rv')
    if v is None or v in ('noslot', 'unknown-op', 'DIED'):
        return None
    return int(v, 16)


def login_class(state):
    return {0: 'public', 2: 'public', 1: 'user', 3: 'user', 4: 'so'}.get(state, '?%s' % state)


class AppView:
    """what an application can know about its own sessions/tokens from the calls it made"""

    def __init__(self):
        self.sessions = {}     # name -> {'tok': 'tokK', 'rw': bool}
        self.login = {}        # tok -> 'public' | 'user' | 'so'
        self.so = {}           # tok -> pin hex (current)
        self.user = {}         # tok -> pin hex or None
        self.initialised = False
        self.raw = {}          # raw handle value -> name (this library epoch)

    def name(self, arg):
        """canonical name of a handle argument ('#<raw>' is resolved through the raw values seen)"""
        if arg.startswith('#'):
            return self.raw.get(int(arg[1:], 0), arg)
        return arg

    def tok_of_ref(self, ref):
        if ref.startswith('t') and ref[1:].isdigit():
            return 'tok' + ref[1:]
        return None

    def drop_token_sessions(self, tok):
        for s in [s for s, v in self.sessions.items() if v['tok'] == tok]:
            self.sessions.pop(s)
        self.login[tok] = 'public'

    def restart(self):
        self.sessions = {}
        self.raw = {}
        for t in self.login:
            self.login[t] = 'public'


def monitor_c03(trace):
    """session / login state machine (C03) and PIN rules (C04) as observable through the API"""
    v = AppView()
    bad = []
    last_info = {}      # session -> (state, flags) last reported, valid while no successful state change happened
    for i, (line, r) in enumerate(trace):
        w = line.split()
        op = w[0]
        code = rv(r)
        if op == 'newproc':
            v.restart(); v.initialised = False; last_info = {}
            continue
        if op == 'init':
            if code == OK:
                v.restart(); v.initialised = True; last_info = {}
            continue
        if op == 'fini':
            if code == OK:
                v.restart(); v.initialised = False; last_info = {}
            continue
        if code is None:
            continue
        if op == 'inittoken':
            tok = v.tok_of_ref(w[1])
            lab = w[3] if len(w) > 3 else None
            if tok and any(x['tok'] == tok for x in v.sessions.values()) and code == OK:
                bad.append((i, 'C_InitToken succeeded while a session on the slot is open'))
            if code == OK:
                if w[1] == 'tfree':
                    v.so[lab] = w[2]; v.user[lab] = None; v.login[lab] = 'public'
                elif tok:
                    if tok in v.so and v.so[tok] != w[2]:
                        bad.append((i, 'C_InitToken of an initialised token succeeded with a PIN that is not the SO PIN'))
                    v.user[tok] = None; v.login[tok] = 'public'
                last_info = {}
        elif op == 'open':
            tok = v.tok_of_ref(w[1])
            rw = w[2] == 'rw' or (w[2] not in ('ro', 'rw') and int(w[2], 0) & 2 != 0)
            if code == OK and tok:
                if not rw and v.login.get(tok) == 'so':
                    bad.append((i, 'read-only session opened while the SO is logged in'))
                v.sessions[r['h']] = {'tok': tok, 'rw': rw}
                v.raw[int(r.get('raw', '0'))] = r['h']
        elif op == 'close':
            s = v.name(w[1])
            if code == OK and s in v.sessions:
                tok = v.sessions.pop(s)['tok']
                if not any(x['tok'] == tok for x in v.sessions.values()):
                    v.login[tok] = 'public'
                last_info = {}
        elif op == 'closeall':
            tok = v.tok_of_ref(w[1])
            if code == OK and tok:
                v.drop_token_sessions(tok); last_info = {}
        elif op == 'login':
            s = v.name(w[1])
            if s in v.sessions and code == OK:
                tok = v.sessions[s]['tok']
                ut = int(w[2], 0)
                if ut in (0, 1):
                    if v.login.get(tok, 'public') != 'public':
                        bad.append((i, 'C_Login succeeded although %s is already logged in' % v.login.get(tok)))
                    cur = v.so.get(tok) if ut == 0 else v.user.get(tok)
                    if cur is None or w[3] != cur:
                        bad.append((i, 'C_Login succeeded with a PIN that is not the current %s PIN' % ('SO' if ut == 0 else 'user')))
                    if ut == 0 and any(x['tok'] == tok and not x['rw'] for x in v.sessions.values()):
                        bad.append((i, 'SO login succeeded while a read-only session exists'))
                    v.login[tok] = 'so' if ut == 0 else 'user'
                    last_info = {}
            elif s in v.sessions and code != OK:
                tok = v.sessions[s]['tok']
                ut = int(w[2], 0)
                cur = v.so.get(tok) if ut == 0 else v.user.get(tok)
                if ut in (0, 1) and v.login.get(tok, 'public') == 'public' and cur is not None and w[3] == cur and \
                        not (ut == 0 and any(x['tok'] == tok and not x['rw'] for x in v.sessions.values())):
                    bad.append((i, 'C_Login with the current PIN was refused (rv=0x%x)' % code))
        elif op == 'logout':
            s = v.name(w[1])
            if s in v.sessions and code == OK:
                v.login[v.sessions[s]['tok']] = 'public'; last_info = {}
        elif op == 'initpin':
            s = v.name(w[1])
            if s in v.sessions and code == OK:
                tok = v.sessions[s]['tok']
                if v.login.get(tok) != 'so':
                    bad.append((i, 'C_InitPIN succeeded outside an SO session'))
                n = 0 if w[2] == '.' else len(w[2]) // 2
                if n < 4 or n > 255:
                    bad.append((i, 'C_InitPIN accepted a PIN outside the advertised length range'))
                v.user[tok] = w[2]
        elif op == 'setpin':
            s = v.name(w[1])
            if s in v.sessions and code == OK:
                tok = v.sessions[s]['tok']
                which = 'so' if v.login.get(tok) == 'so' else 'user'
                cur = v.so.get(tok) if which == 'so' else v.user.get(tok)
                if not v.sessions[s]['rw']:
                    bad.append((i, 'C_SetPIN succeeded in a read-only session'))
                if cur is None or cur != w[2]:
                    bad.append((i, 'C_SetPIN succeeded with a wrong old PIN'))
                n = 0 if w[3] == '.' else len(w[3]) // 2
                if n < 4 or n > 255:
                    bad.append((i, 'C_SetPIN accepted a new PIN outside the advertised length range'))
                if which == 'so':
                    v.so[tok] = w[3]
                else:
                    v.user[tok] = w[3]
        elif op == 'sinfo':
            s = v.name(w[1])
            if s in v.sessions and code == OK:
                st = int(r['state'])
                tok = v.sessions[s]['tok']
                exp = v.login.get(tok, 'public')
                if login_class(st) != exp:
                    bad.append((i, 'session reports %s but the token should be %s' % (login_class(st), exp)))
                rwbit = st in (2, 3, 4)
                if rwbit != (v.sessions[s]['rw'] or exp == 'so'):
                    bad.append((i, 'session reports the wrong R/W flavour (state %d)' % st))
                if s in last_info and last_info[s] != (st, r.get('flags')):
                    bad.append((i, 'session state changed (%s -> %s) although no call succeeded in between' % (last_info[s], (st, r.get('flags')))))
                last_info[s] = (st, r.get('flags'))
            elif s in v.sessions and code != OK:
                bad.append((i, 'C_GetSessionInfo failed on an open session (rv=0x%x)' % code))
    return bad
