#!/usr/bin/env python3
"""Property monitors over REAL traces of the library (list of (op line, result dict) in p11drv
syntax).  Each monitor is the property text read as a checker; it keeps its own bookkeeping of
what the application did (sessions it opened, PINs it set, objects it created) and never consults
the Coq model.  A monitor returns a list of (index, message)."""

OK = 0


def rv(r):
    v = r.get('rv')
    if v is None or v in ('noslot', 'unknown-op', 'DIED'):
        return None
    return int(v, 16)


def login_class(state):
    return {0: 'public', 2: 'public', 1: 'user', 3: 'user', 4: 'so'}.get(state, '?%s' % state)


class AppView:
    """what an application can know about its own sessions/tokens from the calls it made"""

    def __init__(self):
        self.sessions = {}     # name -> {'tok': 'tokK', 'rw': bool}
        self.login = {}        # tok -> 'public' | 'user' | 'so'
        self.so = {}           # tok -> pin hex (current)
        self.user = {}         # tok -> pin hex or None
        self.initialised = False
        self.raw = {}          # raw handle value -> name (this library epoch)

    def name(self, arg):
        """canonical name of a handle argument ('#<raw>' is resolved through the raw values seen)"""
        if arg.startswith('#'):
            return self.raw.get(int(arg[1:], 0), arg)
        return arg

    def tok_of_ref(self, ref):
        if ref.startswith('t') and ref[1:].isdigit():
            return 'tok' + ref[1:]
        return None

    def drop_token_sessions(self, tok):
        for s in [s for s, v in self.sessions.items() if v['tok'] == tok]:
            self.sessions.pop(s)
        self.login[tok] = 'public'

    def restart(self):
        self.sessions = {}
        self.raw = {}
        for t in self.login:
            self.login[t] = 'public'


def monitor_c03(trace):
    """session / login state machine (C03) and PIN rules (C04) as observable through the API"""
    v = AppView()
    bad = []
    last_info = {}      # session -> (state, flags) last reported, valid while no successful state change happened
    for i, (line, r) in enumerate(trace):
        w = line.split()
        op = w[0]
        code = rv(r)
        if op == 'newproc':
            v.restart(); v.initialised = False; last_info = {}
            continue
        if op == 'init':
            if code == OK:
                v.restart(); v.initialised = True; last_info = {}
            continue
        if op == 'fini':
            if code == OK:
                v.restart(); v.initialised = False; last_info = {}
            continue
        if code is None:
            continue
        if op == 'inittoken':
            tok = v.tok_of_ref(w[1])
            lab = w[3] if len(w) > 3 else None
            if tok and any(x['tok'] == tok for x in v.sessions.values()) and code == OK:
                bad.append((i, 'C_InitToken succeeded while a session on the slot is open'))
            if code == OK:
                if w[1] == 'tfree':
                    v.so[lab] = w[2]; v.user[lab] = None; v.login[lab] = 'public'
                elif tok:
                    if tok in v.so and v.so[tok] != w[2]:
                        bad.append((i, 'C_InitToken of an initialised token succeeded with a PIN that is not the SO PIN'))
                    v.user[tok] = None; v.login[tok] = 'public'
                last_info = {}
        elif op == 'open':
            tok = v.tok_of_ref(w[1])
            rw = w[2] == 'rw' or (w[2] not in ('ro', 'rw') and int(w[2], 0) & 2 != 0)
            if code == OK and tok:
                if not rw and v.login.get(tok) == 'so':
                    bad.append((i, 'read-only session opened while the SO is logged in'))
                v.sessions[r['h']] = {'tok': tok, 'rw': rw}
                v.raw[int(r.get('raw', '0'))] = r['h']
        elif op == 'close':
            s = v.name(w[1])
            if code == OK and s in v.sessions:
                tok = v.sessions.pop(s)['tok']
                if not any(x['tok'] == tok for x in v.sessions.values()):
                    v.login[tok] = 'public'
                last_info = {}
        elif op == 'closeall':
            tok = v.tok_of_ref(w[1])
            if code == OK and tok:
                v.drop_token_sessions(tok); last_info = {}
        elif op == 'login':
            s = v.name(w[1])
            if s in v.sessions and code == OK:
                tok = v.sessions[s]['tok']
                ut = int(w[2], 0)
                if ut in (0, 1):
                    if v.login.get(tok, 'public') != 'public':
                        bad.append((i, 'C_Login succeeded although %s is already logged in' % v.login.get(tok)))
                    cur = v.so.get(tok) if ut == 0 else v.user.get(tok)
                    if cur is None or w[3] != cur:
                        bad.append((i, 'C_Login succeeded with a PIN that is not the current %s PIN' % ('SO' if ut == 0 else 'user')))
                    if ut == 0 and any(x['tok'] == tok and not x['rw'] for x in v.sessions.values()):
                        bad.append((i, 'SO login succeeded while a read-only session exists'))
                    v.login[tok] = 'so' if ut == 0 else 'user'
                    last_info = {}
            elif s in v.sessions and code != OK:
                tok = v.sessions[s]['tok']
                ut = int(w[2], 0)
                cur = v.so.get(tok) if ut == 0 else v.user.get(tok)
                if ut in (0, 1) and v.login.get(tok, 'public') == 'public' and cur is not None and w[3] == cur and \
                        not (ut == 0 and any(x['tok'] == tok and not x['rw'] for x in v.sessions.values())):
                    bad.append((i, 'C_Login with the current PIN was refused (rv=0x%x)' % code))
        elif op == 'logout':
            s = v.name(w[1])
            if s in v.sessions and code == OK:
                v.login[v.sessions[s]['tok']] = 'public'; last_info = {}
        elif op == 'initpin':
            s = v.name(w[1])
            if s in v.sessions and code == OK:
                tok = v.sessions[s]['tok']
                if v.login.get(tok) != 'so':
                    bad.append((i, 'C_InitPIN succeeded outside an SO session'))
                n = 0 if w[2] == '.' else len(w[2]) // 2
                if n < 4 or n > 255:
                    bad.append((i, 'C_InitPIN accepted a PIN outside the advertised length range'))
                v.user[tok] = w[2]
        elif op == 'setpin':
            s = v.name(w[1])
            if s in v.sessions and code == OK:
                tok = v.sessions[s]['tok']
                which = 'so' if v.login.get(tok) == 'so' else 'user'
                cur = v.so.get(tok) if which == 'so' else v.user.get(tok)
                if not v.sessions[s]['rw']:
                    bad.append((i, 'C_SetPIN succeeded in a read-only session'))
                if cur is None or cur != w[2]:
                    bad.append((i, 'C_SetPIN succeeded with a wrong old PIN'))
                n = 0 if w[3] == '.' else len(w[3]) // 2
                if n < 4 or n > 255:
                    bad.append((i, 'C_SetPIN accepted a new PIN outside the advertised length range'))
                if which == 'so':
                    v.so[tok] = w[3]
                else:
                    v.user[tok] = w[3]
        elif op == 'sinfo':
            s = v.name(w[1])
            if s in v.sessions and code == OK:
                st = int(r['state'])
                tok = v.sessions[s]['tok']
                exp = v.login.get(tok, 'public')
                if login_class(st) != exp:
                    bad.append((i, 'session reports %s but the token should be %s' % (login_class(st), exp)))
                rwbit = st in (2, 3, 4)
                if rwbit != (v.sessions[s]['rw'] or exp == 'so'):
                    bad.append((i, 'session reports the wrong R/W flavour (state %d)' % st))
                if s in last_info and last_info[s] != (st, r.get('flags')):
                    bad.append((i, 'session state changed (%s -> %s) although no call succeeded in between' % (last_info[s], (st, r.get('flags')))))
                last_info[s] = (st, r.get('flags'))
            elif s in v.sessions and code != OK:
                bad.append((i, 'C_GetSessionInfo failed on an open session (rv=0x%x)' % code))
    return bad


# =========================================================================================== objects
def parse_item(it):
    """'<type>=<k>:<payload>' -> (type, bytes | None, announced length)"""
    t, v = it.split('=', 1)
    k, p = v[0], v[2:]
    ty = int(t, 0)
    if k == 'u':
        return ty, int(p, 0).to_bytes(8, 'little'), 8
    if k == 'b':
        return ty, bytes([int(p, 0)]), 1
    if k == 'x':
        b = bytes.fromhex(p)
        return ty, b, len(b)
    if k == 'n':
        return ty, None, 0
    if k == 'N':
        return ty, None, int(p, 0)
    return ty, None, -1


DATA_DEFAULTS = {0: (0).to_bytes(8, 'little'), 1: b'\x00', 2: b'\x01', 3: b'', 0x10: b'', 0x11: b'', 0x12: b'', 0x170: b'\x01', 0x171: b'\x01', 0x172: b'\x01'}
BOOL_ATTRS = (1, 2, 0x170, 0x171, 0x172)


class ObjView(AppView):
    """AppView plus what the application knows about the objects it created (by name and by label)"""

    def __init__(self):
        AppView.__init__(self)
        self.objs = {}        # name -> label (live handle names of this epoch, as far as the application can know)
        self.store = {}       # label -> {'tok','attrs': {type: bytes}, 'owner': session name or None}
        self.nnames = 0
        self.ambiguous = False

    def flags(self, name):
        lab = self.objs.get(name)
        o = self.store.get(lab) if lab is not None else None
        if o is None:
            return None
        return {'tok': o['tok'], 'token': o['attrs'].get(1, b'\x00') != b'\x00', 'private': o['attrs'].get(2, b'\x01') != b'\x00',
                'owner': o['owner'], 'label': lab}

    def restart(self):
        AppView.restart(self)
        self.objs = {}
        self.nnames = 0
        for lab in [l for l, o in self.store.items() if o['attrs'].get(1, b'\x00') == b'\x00']:
            self.store.pop(lab)

    def note_name(self, name):
        try:
            self.nnames = max(self.nnames, int(name[1:]) + 1)
        except ValueError:
            pass

    def apply(self, i, line, r, bad_c03=None):
        """update the view with one executed call; returns the list of session/login findings (C03 part)"""
        w = line.split()
        op = w[0]
        code = rv(r)
        if op == 'newproc':
            self.restart(); self.initialised = False
        elif op == 'init' and code == OK:
            self.restart(); self.initialised = True
        elif op == 'fini' and code == OK:
            self.restart(); self.initialised = False
        if code is None or code != OK:
            return
        if op == 'inittoken':
            tok = self.tok_of_ref(w[1])
            lab = w[3] if len(w) > 3 else None
            if w[1] == 'tfree':
                self.so[lab] = w[2]; self.user[lab] = None; self.login[lab] = 'public'
            elif tok:
                self.user[tok] = None; self.login[tok] = 'public'
                for l in [l for l, o in self.store.items() if o['tok'] == tok]:
                    self.store.pop(l)
        elif op == 'open':
            tok = self.tok_of_ref(w[1])
            rw = w[2] == 'rw' or (w[2] not in ('ro', 'rw') and int(w[2], 0) & 2 != 0)
            self.sessions[r['h']] = {'tok': tok, 'rw': rw}
            self.raw[int(r.get('raw', '0'))] = r['h']
            self.note_name(r['h'])
        elif op == 'close':
            s = self.name(w[1])
            if s in self.sessions:
                tok = self.sessions.pop(s)['tok']
                last = not any(x['tok'] == tok for x in self.sessions.values())
                if last:
                    self.login[tok] = 'public'
                for n in list(self.objs):
                    f = self.flags(n)
                    if f and f['tok'] == tok and (last or (not f['token'] and f['owner'] == s)):
                        self.objs.pop(n)
                for l in [l for l, o in self.store.items() if o['tok'] == tok and o['attrs'].get(1, b'\x00') == b'\x00' and (last or o['owner'] == s)]:
                    self.store.pop(l)
        elif op == 'closeall':
            tok = self.tok_of_ref(w[1])
            if tok:
                self.drop_token_sessions(tok)
                for n in list(self.objs):
                    f = self.flags(n)
                    if f and f['tok'] == tok:
                        self.objs.pop(n)
                for l in [l for l, o in self.store.items() if o['tok'] == tok and o['attrs'].get(1, b'\x00') == b'\x00']:
                    self.store.pop(l)
        elif op == 'login':
            s = self.name(w[1])
            if s in self.sessions and int(w[2], 0) in (0, 1):
                self.login[self.sessions[s]['tok']] = 'so' if int(w[2], 0) == 0 else 'user'
        elif op == 'logout':
            s = self.name(w[1])
            if s in self.sessions:
                tok = self.sessions[s]['tok']
                self.login[tok] = 'public'
                for n in list(self.objs):
                    f = self.flags(n)
                    if f and f['tok'] == tok and f['private']:
                        self.objs.pop(n)
                for l in [l for l, o in self.store.items() if o['tok'] == tok and o['attrs'].get(1, b'\x00') == b'\x00' and o['attrs'].get(2, b'\x01') != b'\x00']:
                    self.store.pop(l)
        elif op == 'initpin':
            s = self.name(w[1])
            if s in self.sessions:
                self.user[self.sessions[s]['tok']] = w[2]
        elif op == 'setpin':
            s = self.name(w[1])
            if s in self.sessions:
                tok = self.sessions[s]['tok']
                if self.login.get(tok) == 'so':
                    self.so[tok] = w[3]
                else:
                    self.user[tok] = w[3]
        elif op in ('create', 'copy'):
            s = self.name(w[1])
            if s not in self.sessions:
                return
            tok = self.sessions[s]['tok']
            if op == 'create':
                attrs = dict(DATA_DEFAULTS)
                items = w[2:]
            else:
                src = self.flags(self.name(w[2]))
                if src is None:
                    self.note_name(r['h'])
                    return
                attrs = dict(self.store[src['label']]['attrs'])
                items = w[3:]
            for it in items:
                if '=' in it:
                    ty, val, ln = parse_item(it)
                    if val is not None:
                        if ty in BOOL_ATTRS:
                            val = b'\x01' if val[:1] != b'\x00' else b'\x00'
                        if not (op == 'copy' and ty == 0x171 and val == b'\x01'):
                            attrs[ty] = val
            lab = attrs.get(3, b'').hex()
            if lab in self.store:
                self.ambiguous = True       # two objects with one label: the application can no longer tell them apart by label
            self.store[lab] = {'tok': tok, 'attrs': attrs, 'owner': s if attrs.get(1, b'\x00') == b'\x00' else None}
            self.objs[r['h']] = lab
            self.raw[int(r.get('raw', '0'))] = r['h']
            self.note_name(r['h'])
        elif op == 'destroy':
            n = self.name(w[2])
            lab = self.objs.pop(n, None)
            if lab is not None:
                for m in [m for m, l in self.objs.items() if l == lab]:
                    self.objs.pop(m)
                self.store.pop(lab, None)
        elif op == 'setattr':
            n = self.name(w[2])
            lab = self.objs.get(n)
            if lab in self.store:
                o = self.store[lab]
                for it in w[3:]:
                    if '=' in it:
                        ty, val, ln = parse_item(it)
                        if val is not None:
                            if ty in BOOL_ATTRS:
                                val = b'\x01' if val[:1] != b'\x00' else b'\x00'
                            o['attrs'][ty] = val
                newlab = o['attrs'].get(3, b'').hex()
                if newlab != lab and newlab in self.store:
                    self.ambiguous = True
                if newlab != lab:
                    self.store[newlab] = self.store.pop(lab)
                    for m in [m for m, l in self.objs.items() if l == lab]:
                        self.objs[m] = newlab
        elif op in ('find', 'findseq'):
            names = [x for x in r.get('objs', '').split(',') if x]
            newl = [x for x in r.get('newlabels', '').split(',')] if r.get('newlabels') else []
            unknown = sorted([n for n in names if int(n[1:]) >= self.nnames], key=lambda n: int(n[1:]))
            if 'ff3f' in newl:
                self.ambiguous = True       # an object whose label cannot be read through this session (F23): names cannot be aligned
            for n, l in zip(unknown, newl):
                self.objs[n] = l
            for n in names:
                self.note_name(n)
            # raw handle values of the objects returned: a later '#<raw>' argument names the same object
            for pr in [x for x in r.get('pairs', '').split(',') if ':' in x]:
                nm, rawv = pr.split(':', 1)
                try:
                    self.raw[int(rawv)] = nm
                except ValueError:
                    pass


def monitor_c01(trace):
    """private objects only with the user logged in; token objects only through R/W sessions"""
    v = ObjView()
    bad = []
    for i, (line, r) in enumerate(trace):
        w = line.split()
        op = w[0]
        code = rv(r)
        if v.ambiguous:
            break
        if code is not None and len(w) > 1:
            s = v.name(w[1])
            sess = v.sessions.get(s)
            if sess is not None:
                tok = sess['tok']
                user = v.login.get(tok, 'public') == 'user'
                rwok = sess['rw'] or v.login.get(tok) == 'so'
                if op in ('getattr', 'setattr', 'copy', 'destroy', 'encinit', 'decinit', 'signinit', 'verifyinit', 'digestkey'):
                    hn = v.name(w[3] if op.endswith('init') else w[2])
                    f = v.flags(hn)
                    if f is not None and f['private'] and not user:
                        if code == OK:
                            bad.append((i, '%s on a private object succeeded without the normal user logged in' % op))
                        if op == 'getattr':
                            for (ty, ln, hx) in r.get('attrs', []):
                                if hx and set(hx.lower()) - set('a5'):
                                    bad.append((i, 'C_GetAttributeValue wrote attribute bytes of a private object without the user logged in'))
                    if f is not None and f['token'] and not rwok and op in ('setattr', 'destroy') and code == OK:
                        bad.append((i, '%s of a token object succeeded in a read-only session' % op))
                if op == 'create' and code == OK:
                    priv, token = True, False
                    for it in w[2:]:
                        if '=' in it:
                            ty, val, ln = parse_item(it)
                            if ty == 2 and val is not None and ln == 1:
                                priv = val != b'\x00'
                            if ty == 1 and val is not None and ln == 1:
                                token = val != b'\x00'
                    if priv and not user:
                        bad.append((i, 'a private object was created without the normal user logged in'))
                    if token and not rwok:
                        bad.append((i, 'a token object was created through a read-only session'))
                if op in ('find', 'findseq') and code == OK and not user:
                    pre = dict(v.objs)
                    v.apply(i, line, r)
                    for n in [x for x in r.get('objs', '').split(',') if x]:
                        f = v.flags(n)
                        if f is not None and f['private']:
                            bad.append((i, 'C_FindObjects returned a private object without the normal user logged in'))
                    if 'ff3f' in (r.get('newlabels') or '').split(','):
                        # the driver could not read CKA_LABEL of a returned object through this very session:
                        # only a private object refuses that to a session without the user logged in
                        bad.append((i, 'C_FindObjects returned a handle to an object this session may not read (a private object) without the normal user logged in'))
                    continue
        v.apply(i, line, r)
    return bad


def monitor_c11(trace):
    """handles never issued twice; exactly the affected handles die"""
    v = ObjView()
    bad = []
    issued = 0
    for i, (line, r) in enumerate(trace):
        w = line.split()
        op = w[0]
        code = rv(r)
        if v.ambiguous:
            break
        if op in ('newproc',) or (op in ('fini', 'init') and code == OK):
            issued = 0
        if code == OK and op in ('open', 'create', 'copy') and 'h' in r:
            idx = int(r['h'][1:])
            if idx < issued:
                bad.append((i, 'handle value %s issued a second time (it already named %s)' % (r.get('raw'), r['h'])))
            issued = max(issued, idx + 1)
        if code == OK and op in ('find', 'findseq'):
            for n in [x for x in r.get('objs', '').split(',') if x]:
                issued = max(issued, int(n[1:]) + 1)
                if n in v.sessions:
                    bad.append((i, 'C_FindObjects returned a value that is a live session handle'))
        # probes
        if code is not None and op == 'sinfo' and w[1].startswith('h'):
            n = w[1]
            known = int(n[1:]) < issued
            if n in v.sessions and code != OK:
                bad.append((i, 'live session handle rejected (rv=0x%x)' % code))
            if known and n not in v.sessions and code == OK and n not in v.objs:
                bad.append((i, 'closed session handle still accepted'))
        if code is not None and op == 'objsize' and w[2].startswith('h') and v.name(w[1]) in v.sessions:
            n = w[2]
            if n in v.objs and code != OK:
                bad.append((i, 'live object handle rejected (rv=0x%x)' % code))
            if int(n[1:]) < issued and n not in v.objs and n not in v.sessions and getattr(v, 'everknown', {}).get(n) and code == OK:
                bad.append((i, 'dead object handle still accepted'))
        before = set(v.objs)
        v.apply(i, line, r)
        ek = getattr(v, 'everknown', {})
        for n in v.objs:
            ek[n] = True
        v.everknown = ek
    return bad


def expected_find(v, sess_name, items):
    sess = v.sessions[sess_name]
    tok = sess['tok']
    user = v.login.get(tok, 'public') == 'user'
    tmpl = []
    for it in items:
        if '=' in it:
            tmpl.append(parse_item(it))
    out = set()
    for lab, o in v.store.items():
        if o['tok'] != tok:
            continue
        a = o['attrs']
        if a.get(2, b'\x01') != b'\x00' and not user:
            continue
        ok = True
        for (ty, val, ln) in tmpl:
            if ty not in a:
                ok = False; break
            have = a[ty]
            if ty in BOOL_ATTRS:
                if ln != 1 or val is None or (have != b'\x00') != (val == b'\x01'):
                    ok = False; break
            elif ty == 0:
                if ln != 8 or val != have:
                    ok = False; break
            else:
                if ln != len(have) or (ln != 0 and val != have):
                    ok = False; break
        if ok:
            out.add(lab)
    return out


def monitor_c19(trace):
    """C_FindObjectsInit + batches return exactly the visible matching objects, each once"""
    v = ObjView()
    bad = []
    active = {}    # session -> {'expected': set(labels), 'got': [labels], 'clean': bool}
    for i, (line, r) in enumerate(trace):
        w = line.split()
        op = w[0]
        code = rv(r)
        s = v.name(w[1]) if len(w) > 1 else None
        if v.ambiguous:
            break
        if op == 'findinit' and code == OK and s in v.sessions:
            active[s] = {'expected': expected_find(v, s, w[2:]), 'got': [], 'clean': True, 'done': False}
        elif op in ('find', 'findseq') and code == OK and s in active:
            a = active[s]
            names = [x for x in r.get('objs', '').split(',') if x]
            sizes = [int(z, 0) for z in w[2:]]
            mx = sum(sizes)
            got_ns = [int(x) for x in r.get('ns', r.get('n', '0')).split(',') if x != '']
            if r.get('over') == '1' or any(g > z for g, z in zip(got_ns, sizes)):
                bad.append((i, 'C_FindObjects returned more handles than asked for'))
            # every batch but the last non-empty one must be full: min(max, remaining)
            for bi, (g, z) in enumerate(zip(got_ns, sizes)):
                if g < z and any(x > 0 for x in got_ns[bi + 1:]):
                    bad.append((i, 'a C_FindObjects batch was short although handles remained'))
            if r.get('dup') == '1':
                bad.append((i, 'C_FindObjects returned a handle twice in one batch'))
            v.apply(i, line, r)
            for n in names:
                lab = v.objs.get(n)
                a['got'].append(lab)
            if any(g < z for g, z in zip(got_ns, sizes)):
                a['done'] = True
            if a['clean']:
                got = [g for g in a['got'] if g is not None]
                if len(got) != len(set(got)):
                    bad.append((i, 'an object was returned twice by one search'))
                extra = set(got) - a['expected']
                if extra:
                    bad.append((i, 'search returned objects that do not match or are not visible: %s' % sorted(extra)))
                if a['done'] and None not in a['got'] and set(got) != a['expected']:
                    bad.append((i, 'search missed matching visible objects: %s' % sorted(a['expected'] - set(got))))
            continue
        elif op == 'findfinal' and code == OK:
            active.pop(s, None)
        elif code == OK and op in ('destroy', 'close', 'closeall', 'logout', 'login', 'create', 'copy', 'setattr', 'inittoken', 'fini', 'init') or op == 'newproc':
            for a in active.values():
                a['clean'] = False
            if op in ('fini', 'init', 'newproc', 'close', 'closeall'):
                if op in ('fini', 'init', 'newproc'):
                    active = {}
        v.apply(i, line, r)
    return bad
