#!/bin/bash
# run every registered check in the given tier on the CLEAN /repo tree (refuses when the working tree is modified);
# use this before committing evidence/.  usage: tools/run_all.sh [quick|thorough]
cd "$(dirname "$0")/.."
if [ -n "$(git -C /repo status --porcelain --untracked-files=no)" ]; then echo "/repo working tree is modified: not running" >&2; exit 2; fi
tier=${1:-quick}; fail=0
for p in $(python3 -c "import json; print(' '.join(c['property_id'] for c in json.load(open('MANIFEST.json'))['checks']))"); do
  s=$(date +%s); out=$(tools/check $p $tier 2>&1); rc=$?
  echo "$p rc=$rc $(( $(date +%s) - s ))s violations=$(echo "$out" | grep -c '^VIOLATION') known=$(echo "$out" | grep -c '^KNOWN-FINDING')"
  [ $rc -ne 0 ] && { fail=1; echo "$out" | grep '^violation\|^VIOLATION' | head -4; }
done
exit $fail
