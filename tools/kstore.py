#!/usr/bin/env python3
"""K-store: the object store of the built library under injected file-system failures and crashes (C05, C09, C16).

A template token directory is built once per run (SO PIN, user PIN, a public data object, a private AES key, a
private RSA key, a public wrapping key).  Every scenario is one PKCS#11 call that writes to the directory.  For each
scenario the shim (harness/fsshim.c) first LOGS the file-system events of the call; then the call is repeated on a
fresh copy of the template once per (function, n) with that event FAILING, and once per event index k with the
process KILLED just before event k.  The oracles are the properties' own words:
  fail, rv != CKR_OK : the objects seen in the process and by a fresh process are exactly those before the call (C09)
  fail, rv == CKR_OK : a fresh process sees exactly what the calling process sees after the call           (C05)
  kill               : a fresh process initialises, both PINs log in, untouched objects are identical, the object
                       being written is old, new or (if it was being created) absent                        (C16)
"""
import os, shutil, random, json
import vlib
from p11i import P11
from kcrypto import RSAKEYS, be

SO, USER, NEWUSER, NEWSO = '736f70696e313233', '7573657231323334', '6e6577757365723939', '6e6577736f70696e'
ATTR_TYPES = [0, 1, 2, 3, 0x10, 0x11, 0x12, 0x90, 0x100, 0x102, 0x103, 0x104, 0x105, 0x106, 0x107, 0x108, 0x10a, 0x10c, 0x110, 0x111,
              0x120, 0x121, 0x122, 0x123, 0x161, 0x162, 0x163, 0x164, 0x165, 0x166, 0x170, 0x171, 0x172, 0x180, 0x181, 0x202, 0x210, 0x40000600]


def hexs(s):
    return s.encode().hex()


def all_objects(p, s):
    p.op('findfinal %s' % s)
    if p.rv('findinit %s' % s) != 0:
        return None
    r = p.op('find %s 2000' % s)
    p.op('findfinal %s' % s)
    o = r.get('objs', '')
    return [x for x in o.split(',') if x]


def view(p, s, big=False, types=None):
    """label -> attribute tuple of every object the session can see (None when the session cannot search)"""
    names = all_objects(p, s)
    if names is None:
        return None
    v = {}
    for n in names:
        r = p.op('getattr %s %s %s' % (s, n, ' '.join('0x%x:%d' % (t, 400000 if t == 0x11 else 2048) for t in (types or ATTR_TYPES))))
        attrs = tuple((t, l, ('' if l == '-1' else x)) for (t, l, x) in r.get('attrs', []))
        lab = next((x for (t, l, x) in attrs if t == 3), '')
        key = lab
        i = 1
        while key in v:
            key = '%s#%d' % (lab, i)
            i += 1
        v[key] = (n, attrs)
    return v


def strip(v):
    return None if v is None else {k: a for k, (n, a) in v.items()}


def shape(attrs):
    return tuple((t, l) for (t, l, x) in attrs)


class Rig:
    """one copy of a token directory + processes on it"""

    def __init__(self, lib, drv, shim, template=None):
        self.lib, self.drv, self.shim = lib, drv, shim
        self.dir = vlib.mktmp('vs-')
        if template:
            shutil.copytree(os.path.join(template, 'tokens'), os.path.join(self.dir, 'tokens'))
        vlib.write_conf(self.dir)
        self.ctl = os.path.join(self.dir, 'ctl')
        self.log = os.path.join(self.dir, 'log')
        self.gen = 0
        self.procs = []

    def proc(self, shimmed=True):
        env = {}
        if shimmed:
            env = {'LD_PRELOAD': self.shim, 'FSSHIM_CTL': self.ctl, 'FSSHIM_LOG': self.log, 'FSSHIM_DIR': os.path.join(self.dir, 'tokens')}
        p = P11(self.drv, self.lib, reuse=self.dir, env_extra=env)
        p.timeout = 60
        self.procs.append(p)
        return p

    def arm(self, text):
        self.gen += 1
        tmp = self.ctl + '.tmp'
        with open(tmp, 'w') as f:
            f.write('%d %s\n' % (self.gen, text))
        os.replace(tmp, self.ctl)

    def disarm(self):
        self.arm('off')

    def events(self):
        if not os.path.exists(self.log):
            return []
        ev = []
        for l in open(self.log):
            w = l.split()
            ev.append((w[1], os.path.basename(w[2]) if len(w) > 2 else ''))
        return ev

    def close(self):
        for p in self.procs:
            p.close()
        shutil.rmtree(self.dir, ignore_errors=True)


def open_user(p, pin=USER, so=False):
    """init, session on tok0, login; returns session name or None"""
    if p.rv('init') != 0:
        return None
    r = p.op('open t0 rw')
    s = r.get('h')
    if s is None:
        return None
    rv = p.rv('login %s %d %s' % (s, 0 if so else 1, pin))
    return s if rv == 0 else None


def build_template(lib, drv, shim):
    rig = Rig(lib, drv, shim)
    p = rig.proc(shimmed=False)
    p.op('init')
    p.op('inittoken tfree %s tok0' % SO)
    s = p.op('open t0 rw').get('h')
    p.op('login %s 0 %s' % (s, SO))
    p.op('initpin %s %s' % (s, USER))
    p.op('logout %s' % s)
    p.op('login %s 1 %s' % (s, USER))
    k = RSAKEYS[0]
    lines = [
        'create %s 0=u:0 1=b:1 2=b:0 3=x:%s 0x10=x:%s 0x11=x:%s' % (s, hexs('pubdata'), hexs('app'), 'a1' * 100),
        'create %s 0=u:4 0x100=u:0x1f 1=b:1 2=b:1 3=x:%s 0x11=x:%s 0x162=b:1 0x103=b:0 0x104=b:1 0x105=b:1' % (s, hexs('privkey'), '5a' * 32),
        'create %s 0=u:4 0x100=u:0x1f 1=b:1 2=b:0 3=x:%s 0x11=x:%s 0x162=b:1 0x103=b:0 0x104=b:1 0x105=b:1 0x106=b:1 0x107=b:1 0x10c=b:1' % (s, hexs('wrapkey'), '6b' * 16),
        'create %s 0=u:3 0x100=u:0 1=b:1 2=b:1 3=x:%s 0x120=x:%s 0x122=x:%s 0x123=x:%s 0x124=x:%s 0x125=x:%s 0x126=x:%s 0x127=x:%s 0x128=x:%s 0x103=b:0 0x162=b:1 0x108=b:1'
        % (s, hexs('rsapriv'), be(int(k['n'], 16)), be(int(k['e'], 16)), be(int(k['d'], 16)), be(int(k['p'], 16)), be(int(k['q'], 16)),
           be(int(k['dp'], 16)), be(int(k['dq'], 16)), be(int(k['qinv'], 16))),
    ]
    for l in lines:
        assert p.rv(l) == 0, (l, p.trace[-1])
    # a blob for the unwrap scenario: privkey wrapped under wrapkey
    v = view(p, s)
    r = p.op('wrap %s 0x2109 %s %s 600' % (s, v[hexs('wrapkey')][0], v[hexs('privkey')][0]))
    blob = r.get('out', '')
    p.close()
    rig.procs = []
    return rig, blob


def first_login_crash(lib, drv, shim, kinds=('user', 'so')):
    """C16 for the FIRST C_Login after C_InitPIN on a token that never had a user PIN (and for the first SO login after
    C_InitToken): a successful login writes nothing to the store; whatever it does write, a crash before any of its file-system
    events leaves the token, both PINs and a public object usable.  -> (findings, stats)"""
    findings, stats = [], {'events': {}, 'kill_cases': 0}
    base = Rig(lib, drv, shim)
    try:
        p = base.proc(shimmed=False)
        p.op('init')
        p.op('inittoken tfree %s tok0' % SO)
        s = p.op('open t0 rw').get('h')
        p.op('login %s 0 %s' % (s, SO))
        p.op('create %s 0=u:0 1=b:1 2=b:0 3=x:%s 0x11=x:0102' % (s, hexs('pub')))
        p.op('initpin %s %s' % (s, USER))
        p.op('logout %s' % s)
        p.op('fini')
        p.close()
        base.procs = []
        for kind in kinds:
            line = 'login %%s %d %s' % ((1, USER) if kind == 'user' else (0, SO))
            # reference: the events of the login call
            ref = Rig(lib, drv, shim, base.dir)
            try:
                q = ref.proc(True)
                q.op('init')
                s2 = q.op('open t0 rw').get('h')
                ref.arm('log')
                r = q.op(line % s2)
                ref.disarm()
                ev = ref.events()
                q.close()
            finally:
                ref.close()
            stats['events'][kind] = len(ev)
            if r.get('rv') != '0x0':
                findings.append(('C16', 'the first %s login after C_InitPIN answers %s' % (kind, r.get('rv'))))
                continue
            for k in range(1, len(ev) + 1):
                if ev[k - 1][0] in ('open', 'fclose', 'fflush') and not any(e[0] in ('ftruncate', 'fwrite', 'remove', 'rename') for e in ev[:k]):
                    continue          # nothing has been written yet: the state is the committed one
                rig = Rig(lib, drv, shim, base.dir)
                try:
                    q = rig.proc(True)
                    q.op('init')
                    s2 = q.op('open t0 rw').get('h')
                    rig.arm('kill %d' % k)
                    q.op(line % s2)
                    rig.disarm()
                    q.close()
                    stats['kill_cases'] += 1
                    dv = disk_view(rig, USER, SO)
                    where = 'first %s login after C_InitPIN, crash after=%s before=%s (event %d of %d)' % (kind, ev[k - 2][0] if k >= 2 else 'start', ev[k - 1][0], k, len(ev))
                    if dv['init'] != 0 or not dv['alive']:
                        findings.append(('C16', '%s: a fresh process cannot initialise' % where))
                    elif 'open' in dv:
                        findings.append(('C16', '%s: the token is no longer found / cannot be opened (rv %s)' % (where, dv['open'])))
                    elif not dv['so'] or not dv['user']:
                        findings.append(('C16', '%s: the %s PIN no longer logs in' % (where, 'SO' if not dv['so'] else 'user')))
                    elif dv['objs'] is None or hexs('pub') not in dv['objs']:
                        findings.append(('C16', '%s: the token object is gone' % where))
                finally:
                    rig.close()
                if len(findings) >= 2:
                    break
    finally:
        base.close()
    return findings, stats


# ---- scenarios: (name, prelude(ctx) -> lines, op(ctx) -> line, targets, created, pin effect) ---------------------------
def scenarios(blob):
    L = hexs
    S = []

    def add(name, op, targets=(), created=(), prelude=None, pins=None, deterministic=True, so=False, removes_all=False):
        S.append(dict(name=name, op=op, targets=[L(t) for t in targets], created=[L(c) for c in created], prelude=prelude, pins=pins,
                      deterministic=deterministic, so=so, removes_all=removes_all))
    add('create_data', lambda c: 'create %s 0=u:0 1=b:1 2=b:0 3=x:%s 0x11=x:%s' % (c['s'], L('newdata'), 'c3' * 300), created=['newdata'])
    add('create_big_data', lambda c: 'create %s 0=u:0 1=b:1 2=b:0 3=x:%s 0x11=x:%s' % (c['s'], L('bigdata'), 'd4' * 9000), created=['bigdata'])
    add('create_private_key', lambda c: 'create %s 0=u:4 0x100=u:0x1f 1=b:1 2=b:1 3=x:%s 0x11=x:%s 0x162=b:1 0x103=b:0' % (c['s'], L('newkey'), '7c' * 32),
        created=['newkey'], deterministic=False)     # the stored ciphertext has a fresh IV, the API value is the same
    add('setattr_application', lambda c: 'setattr %s %s 0x10=x:%s' % (c['s'], c['obj'][L('pubdata')], 'e5' * 120), targets=['pubdata'])
    add('setattr_id_private', lambda c: 'setattr %s %s 0x102=x:beef' % (c['s'], c['obj'][L('privkey')]), targets=['privkey'])
    add('copy_key', lambda c: 'copy %s %s 3=x:%s' % (c['s'], c['obj'][L('privkey')], L('copykey')), created=['copykey'])
    add('destroy_data', lambda c: 'destroy %s %s' % (c['s'], c['obj'][L('pubdata')]), targets=['pubdata'])
    add('destroy_private_key', lambda c: 'destroy %s %s' % (c['s'], c['obj'][L('rsapriv')]), targets=['rsapriv'])
    add('generate_key', lambda c: 'genkey %s 0x1080 0=u:4 0x100=u:0x1f 0x161=u:32 1=b:1 2=b:1 3=x:%s 0x162=b:1 0x103=b:0' % (c['s'], L('genkey')),
        created=['genkey'], deterministic=False)
    add('generate_keypair', lambda c: 'genpair %s 0x1040 0x180=x:06082a8648ce3d030107 1=b:1 2=b:0 3=x:%s -- 1=b:1 2=b:1 3=x:%s 0x103=b:0 0x162=b:1'
        % (c['s'], L('ecpub'), L('ecpriv')), created=['ecpub', 'ecpriv'], deterministic=False)
    add('unwrap_key', lambda c: 'unwrap %s 0x2109 %s %s 0=u:4 0x100=u:0x1f 1=b:1 2=b:1 3=x:%s 0x162=b:1 0x103=b:0' % (c['s'], c['obj'][L('wrapkey')], blob, L('unwrapped')),
        created=['unwrapped'], deterministic=False)
    add('derive_key', lambda c: 'derive %s 0x1104:sd:%s %s 0=u:4 0x100=u:0x10 0x161=u:16 1=b:1 2=b:0 3=x:%s 0x162=b:1 0x103=b:0' % (c['s'], '11' * 16, c['obj'][L('wrapkey')], L('derived')),
        created=['derived'])
    add('set_user_pin', lambda c: 'setpin %s %s %s' % (c['s'], USER, NEWUSER), pins='user')
    add('init_pin', lambda c: 'initpin %s %s' % (c['s'], NEWUSER), pins='user', so=True)
    add('set_so_pin', lambda c: 'setpin %s %s %s' % (c['s'], SO, NEWSO), pins='so', so=True)
    add('login', lambda c: 'login %s 1 %s' % (c['s2'], USER), prelude=lambda c: ['logout %s' % c['s'], 'open t0 rw'])
    add('reinit_token', lambda c: 'inittoken t0 %s tok0' % SO, prelude=lambda c: ['closeall t0'], pins='reinit', removes_all=True)
    add('init_second_token', lambda c: 'inittoken tfree %s tok1' % SO)
    return S


def start(rig, sc, shimmed=True):
    """fresh process on the rig, logged in, label -> handle map, prelude done.  ctx or None"""
    p = rig.proc(shimmed)
    s = open_user(p, USER)
    if s is None:
        return None
    c = {'p': p, 's': s}
    v = view(p, s)
    c['obj'] = {k: n for k, (n, a) in (v or {}).items()}
    c['pre'] = strip(v)
    if sc['so']:
        p.op('logout %s' % s)
        if p.rv('login %s 0 %s' % (s, SO)) != 0:
            return None
    if sc['prelude']:
        for l in sc['prelude'](c):
            r = p.op(l)
            if l.startswith('open'):
                c['s2'] = r.get('h')
    return c


def disk_view(rig, userpin=USER, sopin=SO):
    """what a fresh, unshimmed process finds: dict(init=rv, so=bool, user=bool, objs=view or None, slots=..)"""
    p = rig.proc(shimmed=False)
    out = {'init': None, 'user': False, 'so': False, 'objs': None, 'alive': True}
    rv = p.rv('init')
    out['init'] = rv
    if rv != 0:
        out['alive'] = p.alive()
        return out
    r = p.op('open t0 rw')
    s = r.get('h')
    if s is None:
        out['open'] = r.get('rv')
        out['alive'] = p.alive()
        return out
    out['so'] = p.rv('login %s 0 %s' % (s, sopin)) == 0
    p.op('logout %s' % s)
    out['user'] = p.rv('login %s 1 %s' % (s, userpin)) == 0
    out['objs'] = strip(view(p, s))
    out['alive'] = p.alive()
    p.close()
    return out


def diff_views(a, b):
    if a is None or b is None:
        return 'view unavailable' if a != b else None
    for k in sorted(set(a) | set(b)):
        if k not in a:
            return 'object %s appeared' % bytes.fromhex(k.split('#')[0]).decode('latin1')
        if k not in b:
            return 'object %s disappeared' % bytes.fromhex(k.split('#')[0]).decode('latin1')
        if a[k] != b[k]:
            d = [t for (t, l, x), (t2, l2, x2) in zip(a[k], b[k]) if (l, x) != (l2, x2)]
            return 'object %s changed in attribute(s) %s' % (bytes.fromhex(k.split('#')[0]).decode('latin1'), ','.join('0x%x' % t for t in d[:4]))
    return None


def reference_run(lib, drv, shim, template, sc):
    """fault-free run in log mode: events of the call, rv, post view"""
    rig = Rig(lib, drv, shim, template)
    try:
        c = start(rig, sc)
        if c is None:
            return None
        rig.arm('log')
        line = sc['op'](c)
        r = c['p'].op(line)
        rig.disarm()
        ev = rig.events()
        post = strip(view(c['p'], c.get('s2') or c['s'])) if not sc['removes_all'] and sc['name'] != 'init_second_token' else None
        c['p'].close()
        return {'events': ev, 'rv': r.get('rv'), 'post': post, 'pre': c['pre'], 'line': line}
    finally:
        rig.close()


def pins_after(sc, changed):
    u, so = USER, SO
    if changed:
        if sc['pins'] == 'user':
            u = NEWUSER
        elif sc['pins'] == 'so':
            so = NEWSO
    return u, so


def fail_case(args):
    """one (scenario, func, n): returns dict(findings=[(property, message)], rv, sig)"""
    lib, drv, shim, template, sc_i, blob, func, n = args
    sc = scenarios(blob)[sc_i]
    rig = Rig(lib, drv, shim, template)
    out = {'scenario': sc['name'], 'func': func, 'n': n, 'findings': [], 'rv': None, 'kind': 'fail'}
    try:
        c = start(rig, sc)
        if c is None:
            out['findings'].append(('harness', 'could not start'))
            return out
        p = c['p']
        rig.arm('%s %s %d' % ('short' if func.endswith('~short') else 'fail', func.split('~')[0], n))
        line = sc['op'](c)
        r = p.op(line)
        rig.disarm()
        out['rv'] = r.get('rv')
        out['line'] = line
        if r.get('rv') in ('DIED', 'HANG') or not p.alive():
            out['findings'].append(('C17', '%s: the process %s when %s #%d failed' % (sc['name'], 'hung' if r.get('rv') == 'HANG' else 'died', func, n)))
            return out
        ok = r.get('rv') == '0x0'
        special = sc['removes_all'] or sc['name'] == 'init_second_token' or sc['name'] == 'login' or sc['so']
        post = None
        if not special:
            post = strip(view(p, c['s']))
            r2 = p.op('open t0 rw')
            post2 = strip(view(p, r2.get('h'))) if r2.get('h') else None
            d = diff_views(post, post2)
            if d and post2 is not None:
                out['findings'].append(('C09' if not ok else 'C05', '%s: after %s #%d failed (rv %s) two sessions of the process disagree: %s' % (sc['name'], func, n, r.get('rv'), d)))
        p.close()
        u, so = pins_after(sc, ok and sc['pins'] in ('user', 'so'))
        dv = disk_view(rig, u, so)
        if dv['init'] != 0 or not dv['alive']:
            out['findings'].append(('C16', '%s: after %s #%d failed (rv %s) a fresh process cannot initialise (rv %s)' % (sc['name'], func, n, r.get('rv'), dv['init'])))
            return out
        if not ok:
            # C09: nothing changed
            if special and sc['removes_all']:
                pass
            d = diff_views(c['pre'], post) if post is not None else None
            if d:
                out['findings'].append(('C09', '%s failed with %s (%s #%d failed) but in the process: %s' % (sc['name'], r.get('rv'), func, n, d)))
            if sc['pins'] == 'reinit' or sc['name'] == 'login' or sc['name'] == 'init_second_token':
                ref = c['pre']
            else:
                ref = c['pre']
            d = diff_views(ref, dv['objs'])
            if d:
                out['findings'].append(('C09', '%s failed with %s (%s #%d failed) but a fresh process sees: %s' % (sc['name'], r.get('rv'), func, n, d)))
            if not dv['so'] or (not dv['user']):
                out['findings'].append(('C09', '%s failed with %s (%s #%d failed) but the %s PIN no longer logs in' % (sc['name'], r.get('rv'), func, n, 'SO' if not dv['so'] else 'user')))
        else:
            # C05: the effect the caller was told about is on disk
            if sc['pins'] == 'reinit':
                if dv['objs']:
                    out['findings'].append(('C05', 'reinit_token returned CKR_OK (%s #%d failed) but a fresh process still finds objects' % (func, n)))
                if not dv['so']:
                    out['findings'].append(('C05', 'reinit_token returned CKR_OK (%s #%d failed) but the SO PIN no longer logs in' % (func, n)))
            elif sc['name'] == 'init_second_token':
                pass
            else:
                refv = post if post is not None else c['pre']       # PIN calls and logins do not change objects
                if refv is not None:
                    d = diff_views(refv, dv['objs'])
                    if d:
                        out['findings'].append(('C05', '%s returned CKR_OK although %s #%d failed, and a fresh process sees: %s' % (sc['name'], func, n, d)))
                if not dv['so'] or not dv['user']:
                    out['findings'].append(('C05', '%s returned CKR_OK although %s #%d failed, and the %s PIN it reported as set does not log in' % (sc['name'], func, n, 'SO' if not dv['so'] else 'user')))
        return out
    finally:
        rig.close()


def kill_case(args):
    """one (scenario, k): the process dies just before event k of the call"""
    lib, drv, shim, template, sc_i, blob, k, ref = args[:8]
    codecdrv = args[8] if len(args) > 8 else None
    sc = scenarios(blob)[sc_i]
    rig = Rig(lib, drv, shim, template)
    ev = ref['events']
    sig = 'after=%s before=%s' % (ev[k - 2][0] if k >= 2 else 'start', ev[k - 1][0] if k - 1 < len(ev) else 'end')
    out = {'scenario': sc['name'], 'k': k, 'sig': sig, 'findings': [], 'kind': 'kill'}
    try:
        c = start(rig, sc)
        if c is None:
            out['findings'].append(('harness', 'could not start'))
            return out
        p = c['p']
        rig.arm('kill %d' % k)
        r = p.op(sc['op'](c))
        rig.disarm()
        out['died'] = r.get('rv') == 'DIED' or not p.alive()
        p.close()
        where = '%s, crash %s (event %d of %d)' % (sc['name'], sig, k, len(ev))
        pred = codec_predict(codecdrv, os.path.join(rig.dir, 'tokens')) if codecdrv else None
        # the PINs: old or (for the PIN scenarios) new
        cands = [(USER, SO)]
        if sc['pins'] == 'user':
            cands.append((NEWUSER, SO))
        if sc['pins'] == 'so':
            cands.append((USER, NEWSO))
        dv = None
        for (u, so) in cands:
            dv = disk_view(rig, u, so)
            if dv['init'] != 0 or not dv['alive'] or (dv['so'] and dv['user']):
                break
        if dv['init'] != 0 or not dv['alive']:
            out['findings'].append(('C16', '%s: a fresh process cannot initialise (rv %s)' % (where, dv['init'])))
            return out
        if 'open' in dv:
            out['findings'].append(('C16', '%s: the token is no longer found / cannot be opened (rv %s)' % (where, dv['open'])))
            return out
        if sc['pins'] == 'reinit':
            if not dv['so']:
                out['findings'].append(('C16', '%s: the SO PIN no longer logs in' % where))
            return out
        if not dv['so']:
            out['findings'].append(('C16', '%s: the SO PIN no longer logs in' % where))
        if not dv['user']:
            out['findings'].append(('C16', '%s: the user PIN no longer logs in' % where))
            return out
        pre, post, disk = c['pre'], ref['post'], dv['objs']
        if disk is None:
            out['findings'].append(('C16', '%s: objects cannot be searched' % where))
            return out
        if codecdrv:
            m = codec_compare(pred, disk)
            out['codec_files'] = m[1]
            if m[0]:
                out['findings'].append(('K-codec', '%s: %s' % (where, m[0])))
                out['state'] = m[2]
        for lab in sorted(set(pre) | set(disk)):
            name = bytes.fromhex(lab.split('#')[0]).decode('latin1')
            if lab in sc['created']:
                if lab in disk and post and lab in post:
                    same = disk[lab] == post[lab] if sc['deterministic'] else shape(disk[lab]) == shape(post[lab])
                    if not same:
                        out['findings'].append(('C16', '%s: the object being created (%s) is returned half-written: attribute shape/values differ from the completed object' % (where, name)))
                continue
            if lab in sc['targets']:
                olds = pre.get(lab)
                news = post.get(lab) if post else None
                got = disk.get(lab)
                if got is None and news is None:
                    continue
                if got is None:
                    out['findings'].append(('C16', '%s: the object being modified (%s) is gone' % (where, name)))
                elif got != olds and got != news:
                    out['findings'].append(('C16', '%s: the object being written (%s) is neither in its old nor in its new state' % (where, name)))
                continue
            if lab not in disk:
                out['findings'].append(('C16', '%s: the untouched object %s is gone' % (where, name)))
            elif lab not in pre:
                out['findings'].append(('C16', '%s: an unexpected object %s appeared' % (where, name)))
            elif disk[lab] != pre[lab]:
                out['findings'].append(('C16', '%s: the untouched object %s changed' % (where, name)))
        return out
    finally:
        rig.close()


# ---- finding classes (known_findings.txt keys) ------------------------------------------------------------------------
CREATING = ('create_data', 'create_big_data', 'create_private_key', 'copy_key', 'generate_key', 'generate_keypair', 'unwrap_key', 'derive_key')
TOKENFILE = ('set_user_pin', 'init_pin', 'set_so_pin', 'login', 'reinit_token', 'init_second_token')


# (after, before) pairs of file-system events between which the PINNED store protocol can be interrupted: one rewrite is
# open(file) open(lock) ftruncate fwrite* fflush fclose fclose; reads are open fflush fclose; deletions remove remove
BASE_SIGS = {('start', 'open'), ('open', 'open'), ('open', 'ftruncate'), ('ftruncate', 'fwrite'), ('fwrite', 'fwrite'), ('fwrite', 'fflush'),
             ('fflush', 'fclose'), ('fflush', 'fflush'), ('fclose', 'fflush'), ('fclose', 'fclose'), ('fclose', 'open'), ('open', 'fflush'), ('fclose', 'remove'), ('remove', 'remove'),
             ('fclose', 'end'), ('remove', 'end'), ('remove', 'open'), ('fclose', 'mkdir'), ('mkdir', 'open'), ('remove', 'rmdir'), ('rmdir', 'open'),
             ('rmdir', 'end'), ('start', 'end'), ('rmdir', 'mkdir'), ('fclose', 'rmdir'), ('rmdir', 'remove'), ('start', 'mkdir')}


def classify(prop, scenario, message, sig=None):
    """the call site a store finding belongs to; anything else stays unclassified and is reported as a violation"""
    if prop not in ('C09', 'C16'):
        return None
    if sig is not None:
        w = dict(x.split('=') for x in sig.split())
        if (w.get('after'), w.get('before')) not in BASE_SIGS:
            return None
    if 'cannot initialise' in message or 'hung' in message or 'died' in message:
        return None
    untouched = 'untouched object' in message
    if scenario in CREATING:
        # only the object under construction: an extra object without label / with the copied label, or the named new object
        if untouched or 'disappeared' in message or 'changed in' in message:
            return None
        return 'piecewise-creation'
    if scenario.startswith('setattr'):
        if untouched:
            return None
        return 'rewrite-in-place:object-file'
    if scenario in TOKENFILE:
        if 'unexpected object' in message or ' appeared' in message:
            return None
        if scenario == 'init_second_token':
            return None      # the token that is being initialised is ANOTHER one: nothing may happen to the existing token
        if scenario.startswith('login'):
            return None      # a successful C_Login writes nothing (fix F15): the listed finding is about C_SetPIN / C_InitPIN / C_InitToken
        return 'rewrite-in-place:token.object'
    if scenario.startswith('destroy') and prop == 'C09':
        return 'delete-invalidates-first' if 'disappeared' in message else None
    return None


def sample_points(n_events, budget, rng):
    pts = list(range(1, n_events + 2))
    if len(pts) <= budget:
        return pts
    head = pts[:budget // 3]
    tail = pts[-(budget // 3):]
    mid = rng.sample(pts[budget // 3:-(budget // 3)], budget - len(head) - len(tail))
    return sorted(set(head + tail + mid))


# ---- K-reject: failing calls without faults (C09 main clause) --------------------------------------------------------------
def raw_objects(tokdir):
    """object files of the (single) token: name -> content after the 8-byte generation header"""
    out = {}
    for d in sorted(os.listdir(tokdir)):
        p = os.path.join(tokdir, d)
        if not os.path.isdir(p):
            continue
        for f in sorted(os.listdir(p)):
            if f.endswith('.object'):
                try:
                    out[d[:4] + '/' + f] = open(os.path.join(p, f), 'rb').read()[8:]
                except OSError:
                    out[d[:4] + '/' + f] = None
    return out


BAD_ATTRS = ['0x7777=x:00', '0x163=b:1', '0x164=b:1', '0x165=b:0', '1=x:0101', '2=x:', '0x103=x:010203', '0x120=x:00c1', '0=u:0x99', '0x100=u:0x7777',
             '0x166=u:0x1080', '0x161=u:7', '0x170=x:0000']


def seq_reject(lib, p11drv, seed, idx):
    rng = random.Random(seed * 15485863 + idx)
    p = P11(p11drv, lib)
    findings, stats = [], {'attempts': 0, 'rejected': 0, 'kinds': {}}
    L = lambda: hexs('L%d_%d' % (idx, rng.randrange(10 ** 6)))
    try:
        p.op('init')
        p.op('inittoken tfree %s tok0' % SO)
        s = p.op('open t0 rw').get('h')
        p.op('login %s 0 %s' % (s, SO))
        p.op('initpin %s %s' % (s, USER))
        p.op('logout %s' % s)
        p.op('login %s 1 %s' % (s, USER))
        s2 = p.op('open t0 rw').get('h')
        ro = p.op('open t0 ro').get('h')
        objs = []
        for (tok, priv) in ((1, 0), (1, 1), (0, 0), (0, 1)):
            r = p.op('create %s 0=u:0 1=b:%d 2=b:%d 3=x:%s 0x11=x:%s' % (s, tok, priv, L(), 'ab' * rng.randint(0, 40)))
            objs.append(r.get('h'))
            r = p.op('create %s 0=u:4 0x100=u:0x1f 1=b:%d 2=b:%d 3=x:%s 0x11=x:%s 0x162=b:1 0x103=b:0 0x104=b:1 0x106=b:1 0x107=b:1 0x10c=b:1'
                     % (s, tok, priv, L(), '%02x' % rng.randrange(256) * 16))
            objs.append(r.get('h'))
        objs = [o for o in objs if o]
        wk = objs[1]
        blob = p.op('wrap %s 0x2109 %s %s 600' % (s, wk, objs[3])).get('out', 'ab' * 24)
        # base keys for key agreement: a P-256 private key and an X25519 pair (the shared secrets are 32 bytes long)
        ecpriv = p.op('create %s 0=u:3 0x100=u:3 0x180=x:06082a8648ce3d030107 0x11=x:%s 0x10c=b:1 1=b:0 2=b:0 0x103=b:0 0x162=b:1' % (s, '%064x' % rng.randrange(1, 2 ** 255))).get('h')
        xpair = p.op('genpair %s 0x1055 0x180=x:130a63757276653235353139 1=b:0 2=b:0 -- 1=b:0 2=b:0 0x10c=b:1' % s)
        xpriv, xpub = xpair.get('priv'), xpair.get('pub')
        xpoint = p.attr(s, xpub, 0x181) if xpub else None
        for _ in range(rng.randint(14, 22)):
            kind = rng.choice(['create', 'create', 'genkey', 'genpair', 'unwrap', 'derive', 'copy', 'setattr', 'setattr', 'destroy', 'agree'])
            if kind == 'agree':
                # C_DeriveKey(CKM_ECDH1_DERIVE) asking for more bytes than the shared secret has: refused AFTER the key object was set up
                tok, priv = rng.randint(0, 1), rng.randint(0, 1)
                base, peer = rng.choice([(ecpriv, '04' + '%064x' % 0x6b17d1f2e12c4247f8bce6e563a440f277037d812deb33a0f4a13945d898c296 + '%064x' % 0x4fe342e2fe1a7f9b8ee7eb4a7c0f9e162bce33576b315ececbb6406837bf51f5),
                                         (xpriv, xpoint.hex() if xpoint else None)])
                if not base or not peer:
                    continue
                pre_v = strip(view(p, s2))
                pre_f = raw_objects(p.tokendir())
                kt, vl = rng.choice([(0x10, 64), (0x10, 33), (0x1f, 32), (0x10, 48)])
                if kt == 0x1f:
                    peer_ = peer
                line = 'derive %s 0x1050:ecdh:1:%s %s 0=u:4 0x100=u:0x%x 0x161=u:%d 1=b:%d 2=b:%d 3=x:%s' % (s, peer, base, kt, vl, tok, priv, L())
                r = p.op(line)
                stats['attempts'] += 1
                if r.get('rv') in ('DIED', 'HANG'):
                    findings.append(('the process %s on: %s' % (r.get('rv'), line[:120]), len(p.trace) - 1))
                    break
                if r.get('rv') != '0x0':
                    stats['rejected'] += 1
                    stats['kinds']['agree/toolong'] = stats['kinds'].get('agree/toolong', 0) + 1
                    d = diff_views(pre_v, strip(view(p, s2)))
                    post_f = raw_objects(p.tokendir())
                    if d:
                        findings.append(('derive (key agreement, %d bytes asked of a 32-byte secret) answered %s but afterwards another session sees: %s' % (vl, r.get('rv'), d), len(p.trace) - 1))
                        break
                    elif pre_f != post_f:
                        findings.append(('derive (key agreement) answered %s but the token directory changed' % r.get('rv'), len(p.trace) - 1))
                        break
                continue
            tok, priv = rng.randint(0, 1), rng.randint(0, 1)
            sess = s
            tmpl = {'create': ['0=u:4', '0x100=u:0x1f', '1=b:%d' % tok, '2=b:%d' % priv, '3=x:%s' % L(), '0x11=x:%s' % ('c4' * 32), '0x162=b:1'],
                    'genkey': ['0=u:4', '0x100=u:0x1f', '0x161=u:32', '1=b:%d' % tok, '2=b:%d' % priv, '3=x:%s' % L()],
                    'genpair': ['1=b:%d' % tok, '2=b:%d' % priv, '3=x:%s' % L()],
                    'unwrap': ['0=u:4', '0x100=u:0x1f', '1=b:%d' % tok, '2=b:%d' % priv, '3=x:%s' % L()],
                    'derive': ['0=u:4', '0x100=u:0x10', '0x161=u:16', '1=b:%d' % tok, '2=b:%d' % priv, '3=x:%s' % L()],
                    'copy': ['3=x:%s' % L(), '0x102=x:0a0b'], 'setattr': ['3=x:%s' % L(), '0x102=x:0c0d'], 'destroy': []}[kind]
            if kind == 'create' and rng.random() < 0.4:
                tmpl = ['0=u:0', '1=b:%d' % tok, '2=b:%d' % priv, '3=x:%s' % L(), '0x11=x:%s' % ('d5' * rng.randint(0, 50))]
            defect = rng.choice(['badattr', 'badattr', 'badattr', 'missing', 'rosession', 'notlogged', 'mech', 'blob', 'stalehandle'] + (['wrongclass'] * 3 if kind == 'unwrap' else []))
            mech = {'genkey': '0x1080', 'genpair': '0x1040', 'unwrap': '0x2109', 'derive': '0x1104:sd:%s' % ('11' * 16)}.get(kind, '')
            target = rng.choice(objs)
            theblob = blob
            relogin = False
            pubtmpl = list(tmpl)         # C_GenerateKeyPair: the defect may sit in the private-key template only (the public key
                                         # object then exists already when the call is refused)
            pairmech, pairparams = rng.choice([('0x1040', '0x180=x:06082a8648ce3d030107'), ('0x1040', '0x180=x:06082a8648ce3d030107'),
                                               ('0x0', '0x121=u:1024 0x122=x:010001'), ('0x1055', '0x180=x:06032b6570')])
            if kind == 'genpair':
                mech = pairmech
            if defect == 'badattr' and kind != 'destroy':
                tmpl.insert(rng.randint(0, len(tmpl)), rng.choice(BAD_ATTRS))
            elif defect == 'missing' and kind in ('create', 'genkey', 'derive', 'genpair'):
                if kind == 'genpair':
                    pass       # no EC params at all
                else:
                    tmpl = [t for t in tmpl if not t.startswith(rng.choice(['0x11=', '0x100=', '0=', '0x161=']))]
            elif defect == 'rosession':
                sess = ro
                tmpl = [t if not t.startswith('1=') else '1=b:1' for t in tmpl]
            elif defect == 'notlogged':
                p.op('logout %s' % s)
                relogin = True
                tmpl = [t if not t.startswith('2=') else '2=b:1' for t in tmpl]
            elif defect == 'mech' and mech:
                mech = {'genkey': '0x1080:x:0102', 'genpair': pairmech + ':x:01', 'unwrap': rng.choice(['0x2109:x:00', '0x1085']), 'derive': rng.choice(['0x1104:sd:0102', '0x1104', '0x1105:sd:00'])}[kind]
            elif defect == 'wrongclass':
                # the blob decrypts and unpads (it wraps a secret key) but the template asks for a private key: the content is not
                # PKCS#8 and the call fails AFTER the new object has been set up
                kt = rng.choice([('0', 'RSA'), ('3', 'EC'), ('1', 'DSA')])[0]
                tmpl = ['0=u:3', '0x100=u:%s' % kt, '1=b:%d' % tok, '2=b:%d' % priv, '3=x:%s' % L()]
                mech = rng.choice(['0x2109', '0x210a', '0x1085:x:%s' % ('00' * 16)])
                if mech != '0x2109':
                    theblob = p.op('wrap %s %s %s %s 600' % (s, mech, wk, objs[3])).get('out', blob)
            elif defect == 'blob' and kind == 'unwrap':
                theblob = rng.choice([blob[:-2], blob[:16], 'ff' + blob[2:], blob + '00', '.'])
            elif defect == 'stalehandle':
                target = 'h%d' % rng.randint(60, 90)
                wk_ = target
            else:
                tmpl.insert(rng.randint(0, len(tmpl)), rng.choice(BAD_ATTRS)) if kind != 'destroy' else None
            if relogin:
                pre = None     # views differ by login state: compare the raw files and the public view only
            pre_v = strip(view(p, s2))
            pre_f = raw_objects(p.tokendir())
            w = wk if defect != 'stalehandle' else target
            line = {'create': 'create %s %s' % (sess, ' '.join(tmpl)), 'genkey': 'genkey %s %s %s' % (sess, mech, ' '.join(tmpl)),
                    'genpair': 'genpair %s %s %s %s -- %s' % (sess, mech, '' if defect == 'missing' else pairparams,
                                                              ' '.join(pubtmpl if (defect == 'badattr' and rng.random() < 0.6) else tmpl), ' '.join(tmpl)),
                    'unwrap': 'unwrap %s %s %s %s %s' % (sess, mech, w, theblob, ' '.join(tmpl)), 'derive': 'derive %s %s %s %s' % (sess, mech, w, ' '.join(tmpl)),
                    'copy': 'copy %s %s %s' % (sess, target, ' '.join(tmpl)), 'setattr': 'setattr %s %s %s' % (sess, target, ' '.join(tmpl)),
                    'destroy': 'destroy %s %s' % (sess, target)}[kind]
            r = p.op(line)
            stats['attempts'] += 1
            rv = r.get('rv')
            if rv in ('DIED', 'HANG'):
                findings.append(('the process %s on: %s' % (rv, line[:120]), len(p.trace) - 1))
                break
            if rv != '0x0':
                stats['rejected'] += 1
                stats['kinds'][kind + '/' + defect] = stats['kinds'].get(kind + '/' + defect, 0) + 1
                post_v = strip(view(p, s2))
                post_f = raw_objects(p.tokendir())
                d = diff_views(pre_v, post_v)
                if d:
                    findings.append(('%s answered %s but afterwards another session sees: %s' % (kind, rv, d), len(p.trace) - 1))
                elif pre_f != post_f:
                    ch = [k for k in set(pre_f) | set(post_f) if pre_f.get(k) != post_f.get(k)]
                    findings.append(('%s answered %s but the token directory changed: %s' % (kind, rv, ', '.join(sorted(ch))[:160]), len(p.trace) - 1))
            else:
                if kind == 'destroy' and target in objs and len(objs) > 5:
                    objs.remove(target)
            if relogin:
                p.op('login %s 1 %s' % (s, USER))
            if findings:
                break
    finally:
        p.close()
    return {'i': idx, 'trace': p.trace, 'findings': findings, 'model_dis': [], 'model_evals': 0, 'stats': stats}


# ---- K-persist: histories with restarts; K-codec on the files they leave (C05) -----------------------------------------------
class Codec:
    def __init__(self, codecdrv):
        import subprocess
        self.p = subprocess.Popen([codecdrv], stdin=subprocess.PIPE, stdout=subprocess.PIPE, text=True, bufsize=1)

    def ask(self, cmd, data):
        self.p.stdin.write('%s %s\n' % (cmd, data.hex() or '.'))
        self.p.stdin.flush()
        return self.p.stdout.readline().strip()

    def close(self):
        try:
            self.p.stdin.close()
            self.p.wait(timeout=5)
        except Exception:
            self.p.kill()


def parse_dec(line):
    """'V gen attrs' -> (gen, {type: (kind, value)}) ; 'I' / 'U' -> (line, None)"""
    if not line.startswith('V'):
        return line, None
    w = line.split(' ', 2)
    attrs = {}
    if len(w) > 2 and w[2]:
        depth, cur, parts = 0, '', []
        for ch in w[2]:
            if ch == '{':
                depth += 1
            if ch == '}':
                depth -= 1
            if ch == ';' and depth == 0:
                parts.append(cur)
                cur = ''
            else:
                cur += ch
        parts.append(cur)
        for a in parts:
            t, k, v = a.split(':', 2)
            attrs[int(t)] = (k, v)
    return w[1], attrs


def api_matches(kind, val, api):
    """does the decoded file value equal what C_GetAttributeValue returned (len string, hex)?"""
    l, x = api
    if kind == 'b':
        return x in (('01' if val == '1' else '00'),)
    if kind == 'u':
        return l == '8' and int.from_bytes(bytes.fromhex(x), 'little') == int(val)
    if kind == 'x':
        return x == ('' if val == '.' else val)
    if kind == 'm':
        want = [int(v) for v in val.split(',') if v]
        got = [int.from_bytes(bytes.fromhex(x)[i:i + 8], 'little') for i in range(0, len(x) // 2, 8)]
        return sorted(want) == sorted(got)
    return True


def seq_persist(lib, p11drv, seed, idx, codecdrv):
    rng = random.Random(seed * 86028121 + idx)
    p = P11(p11drv, lib)
    cd = Codec(codecdrv) if codecdrv else None
    findings, stats = [], {'restarts': 0, 'objects': 0, 'files_decoded': 0, 'values_compared': 0, 'max_value': 0}
    ctr = [0]

    def L():
        ctr[0] += 1
        return hexs('P%d_%d' % (idx, ctr[0]))
    destroyed = set()
    try:
        p.op('init')
        p.op('inittoken tfree %s tok0' % SO)
        s = p.op('open t0 rw').get('h')
        p.op('login %s 0 %s' % (s, SO))
        p.op('initpin %s %s' % (s, USER))
        p.op('logout %s' % s)
        p.op('login %s 1 %s' % (s, USER))
        k = RSAKEYS[idx % len(RSAKEYS)]

        def make():
            kind = rng.choice(['data', 'data', 'bigdata', 'aes', 'generic', 'rsapub', 'cert', 'aesmech', 'rsapubtmpl', 'rsapubtmpl', 'dates'])
            tok = 1 if rng.random() < 0.75 else 0
            priv = rng.randint(0, 1)
            lab = L()
            base = '1=b:%d 2=b:%d 3=x:%s' % (tok, priv, lab)
            if kind == 'data':
                n = rng.choice([0, 1, 7, 100, 1000])
                line = 'create %s 0=u:0 %s 0x10=x:%s 0x11=x:%s 0x12=x:%s' % (s, base, hexs('app%d' % n), ('%02x' % rng.randrange(256)) * n or '', '2a03')
            elif kind == 'bigdata':
                n = rng.choice([5000, 70000, 300000])
                stats['max_value'] = max(stats['max_value'], n)
                line = 'create %s 0=u:0 %s 0x11=x:%s' % (s, base, ('%02x' % rng.randrange(256)) * n)
            elif kind == 'aes':
                line = 'create %s 0=u:4 0x100=u:0x1f %s 0x11=x:%s 0x162=b:1 0x103=b:0 0x102=x:%s' % (s, base, '3c' * rng.choice([16, 24, 32]), '0102' * rng.randint(0, 4))
            elif kind == 'generic':
                line = 'create %s 0=u:4 0x100=u:0x10 %s 0x11=x:%s 0x162=b:1 0x103=b:0' % (s, base, '4d' * rng.randint(1, 90))
            elif kind == 'rsapub':
                line = 'create %s 0=u:2 0x100=u:0 %s 0x120=x:%s 0x122=x:%s 0x104=b:1 0x10a=b:1' % (s, base, be(int(k['n'], 16)), be(int(k['e'], 16)))
            elif kind == 'cert':
                line = 'create %s 0=u:1 0x80=u:0 %s 0x101=x:3000 0x11=x:%s' % (s, base, '30820100' + 'aa' * 60)
            elif kind == 'aesmech':
                line = 'create %s 0=u:4 0x100=u:0x1f %s 0x11=x:%s 0x162=b:1 0x103=b:0 0x40000600=m:0x1082;0x1085;0x1087' % (s, base, '5e' * 16)
            elif kind == 'rsapubtmpl':
                ents = rng.sample(['0~u^4', '3~x^6c62', '0x100~u^0x1f', '0x102~x^0a0b0c', '0x162~b^1', '0x104~b^1', '0x161~u^16', '0x102~x^', '0x10~x^61'], rng.randint(1, 5))
                seen_t, uniq = set(), []
                for e_ in ents:
                    if e_.split('~')[0] not in seen_t:
                        seen_t.add(e_.split('~')[0])
                        uniq.append(e_)
                line = 'create %s 0=u:2 0x100=u:0 %s 0x120=x:%s 0x122=x:%s 0x106=b:1 0x40000211=t:%s' % (s, base, be(int(k['n'], 16)), be(int(k['e'], 16)), ';'.join(uniq))
            else:
                line = 'create %s 0=u:4 0x100=u:0x1f %s 0x11=x:%s 0x162=b:1 0x103=b:0 0x110=x:3230323430313031 0x111=x:3230333031323331' % (s, base, '6f' * 16)
            r = p.op(line)
            if r.get('rv') == '0x0':
                stats['objects'] += 1
            return r

        for _ in range(rng.randint(5, 9)):
            make()
        for _round in range(rng.randint(2, 4)):
            for _ in range(rng.randint(2, 6)):
                v = view(p, s, big=True) or {}
                names = sorted(v)
                c = rng.choice(['make', 'setlabel', 'setid', 'copy', 'destroy'])
                if c == 'make' or not names:
                    make()
                    continue
                lab = rng.choice(names)
                n = v[lab][0]
                if c == 'setlabel':
                    p.op('setattr %s %s 3=x:%s' % (s, n, L()))
                elif c == 'setid':
                    p.op('setattr %s %s 0x102=x:%s' % (s, n, '%02x' % rng.randrange(256) * rng.randint(0, 9) or ''))
                elif c == 'copy':
                    p.op('copy %s %s 3=x:%s' % (s, n, L()))
                else:
                    if p.rv('destroy %s %s' % (s, n)) == 0:
                        destroyed.add(lab)
            before = strip(view(p, s, big=True)) or {}
            expect = {k_: a for k_, a in before.items() if any(t == 1 and x == '01' for (t, l, x) in a)}
            how = rng.choice(['fini', 'newproc', 'closeall'])
            if how == 'closeall':
                p.op('closeall t0')
            elif how == 'fini':
                p.op('fini')
                p.op('init')
            else:
                p.op('newproc')
                p.op('init')
            stats['restarts'] += 1
            s = p.op('open t0 rw').get('h')
            if p.rv('login %s 1 %s' % (s, USER)) != 0:
                findings.append(('the user PIN no longer logs in after %s' % how, len(p.trace) - 1))
                break
            after = strip(view(p, s, big=True))
            d = diff_views(expect, after)
            if d:
                findings.append(('after %s the token objects are not what the last successful calls left: %s' % (how, d), len(p.trace) - 1))
                break
            for lab in destroyed:
                if after and lab in after:
                    findings.append(('a destroyed object reappeared after %s' % how, len(p.trace) - 1))
        # K-codec: every object file decodes in the Coq model, re-encodes to the same bytes, and carries the API's values
        if not findings and cd is not None:
            v = strip(view(p, s, big=True)) or {}
            bylabel = {}
            for lab, a in v.items():
                bylabel[lab] = {t: (l, x) for (t, l, x) in a}
            tokroot = p.tokendir()
            for d_ in os.listdir(tokroot):
                for f in sorted(os.listdir(os.path.join(tokroot, d_))):
                    if not f.endswith('.object'):
                        continue
                    data = open(os.path.join(tokroot, d_, f), 'rb').read()
                    g, attrs = parse_dec(cd.ask('dec', data))
                    stats['files_decoded'] += 1
                    if attrs is None:
                        findings.append(('K-codec: the Coq decoder rejects %s (%s, %d bytes) which the library wrote' % (f, g, len(data)), len(p.trace) - 1))
                        continue
                    re_ = cd.ask('reenc', data)
                    if re_ != data.hex():
                        findings.append(('K-codec: encode_obj (decode_obj file) differs from the %d bytes the library wrote for %s' % (len(data), f), len(p.trace) - 1))
                        continue
                    if f == 'token.object':
                        continue
                    if attrs.get(2, ('b', '1'))[1] == '1':
                        continue        # private: byte strings are ciphertext (C06)
                    lab = attrs.get(3, ('x', '.'))[1]
                    lab = '' if lab == '.' else lab
                    api = bylabel.get(lab)
                    if api is None:
                        findings.append(('K-codec: the file %s decodes to a public object labelled %s that the API does not return' % (f, lab), len(p.trace) - 1))
                        continue
                    for t, (kd, val) in attrs.items():
                        if t in api and api[t][0] != '-1' and kd in 'buxm':
                            stats['values_compared'] += 1
                            if not api_matches(kd, val, api[t]):
                                findings.append(('K-codec: attribute 0x%x of %s: the file decodes to %s:%s, C_GetAttributeValue returns %s' % (t, f, kd, val[:40], api[t][1][:40]), len(p.trace) - 1))
    finally:
        p.close()
        if cd is not None:
            cd.close()
    tr = [(l[:200], r) for (l, r) in p.trace]
    return {'i': idx, 'trace': tr, 'findings': findings[:3], 'model_dis': [], 'model_evals': stats['files_decoded'], 'stats': stats}


def codec_predict(codecdrv, tokroot):
    """the Coq codec's reading of every object file of the crash state (taken BEFORE any recovering process runs):
    (expected visible objects, files decoded, state description)"""
    cd = Codec(codecdrv)
    want = []
    nfiles = 0
    state = {}
    try:
        for d_ in sorted(os.listdir(tokroot)):
            dd = os.path.join(tokroot, d_)
            if not os.path.isdir(dd):
                continue
            for f in sorted(os.listdir(dd)):
                if not f.endswith('.object') or f == 'token.object':
                    continue
                data = open(os.path.join(dd, f), 'rb').read()
                nfiles += 1
                g, attrs = parse_dec(cd.ask('dec', data))
                state[f] = {'bytes': len(data), 'model': g if attrs is None else 'valid:%d attributes' % len(attrs), 'hex': data.hex() if len(data) < 3000 else data[:1500].hex() + '...'}
                if attrs is None:
                    if g == 'U':
                        want.append((True, None, None))      # an empty file is a valid object without attributes (private by default)
                    continue
                priv = attrs.get(2, ('b', '1'))[1] == '1'
                if priv or 2 not in attrs:
                    want.append((True, None, None))
                else:
                    lab = attrs.get(3, ('x', '.'))[1]
                    val = attrs.get(17)
                    want.append((False, '' if lab == '.' else lab, None if val is None else ('' if val[1] == '.' else val[1])))
    finally:
        cd.close()
    return want, nfiles, state


def codec_compare(pred, disk, strict=True):
    """prediction of codec_predict against what the recovering library returns: (message or None, files, state).
    Compared: the NUMBER of objects (every file the model reads as valid - an empty file included - is an object, every
    file it rejects is none) and, for files with an explicit CKA_PRIVATE = false and a label, label and CKA_VALUE."""
    want, nfiles, state = pred
    if len(want) != len(disk):
        return ('the Coq codec reads %d valid object files in the crash state, the recovering library returns %d objects' % (len(want), len(disk)), nfiles, state)
    if not strict:
        return (None, nfiles, state)       # mutated attribute values change what the PKCS#11 layer reveals: only the object count is comparable
    api = {}
    for lab, a in disk.items():
        d = {t: (l, x) for (t, l, x) in a}
        v = d.get(0x11, ('-1', ''))
        api.setdefault(lab.split('#')[0], []).append(None if v[0] == '-1' else v[1])
    for (priv, lab, val) in want:
        if priv or not lab:
            continue
        if lab not in api:
            return ('the Coq codec reads a public object labelled %s in the crash state, the recovering library does not return it' % lab, nfiles, state)
        if val is not None and val not in api[lab]:
            return ('the Coq codec reads CKA_VALUE (%d bytes) of %s in the crash state, the recovering library returns %s' % (len(val) // 2, lab, str([None if x is None else len(x) // 2 for x in api[lab]])), nfiles, state)
    return (None, nfiles, state)
