#!/usr/bin/env python3
"""K-cross (C20): outputs of randomised mechanisms produced under one crypto backend are accepted under the other.
Two library processes (OpenSSL build, Botan build) hold the same imported keys; one produces, the other consumes."""
import random
from p11i import P11
from kcrypto import RSAKEYS, be


def seq_cross(lib_a, p11drv, seed, idx, lib_b):
    rng = random.Random(seed * 104395301 + idx)
    pa, pb = P11(p11drv, lib_a), P11(p11drv, lib_b)
    findings = []
    k = RSAKEYS[idx % len(RSAKEYS)]
    aes = ('%02x' % rng.randrange(256)) * rng.choice([16, 24, 32])
    try:
        H = []
        for p in (pa, pb):
            p.op('init')
            p.op('inittoken tfree 31323334 tok0')
            s = p.op('open t0 rw')['h']
            p.op('login %s 0 31323334' % s)
            p.op('initpin %s 35363738' % s)
            p.op('logout %s' % s)
            p.op('login %s 1 35363738' % s)
            pub = p.op('create %s 0=u:2 0x100=u:0 1=b:0 2=b:0 0x120=x:%s 0x122=x:%s 0x104=b:1 0x10a=b:1 0x106=b:1' % (s, be(int(k['n'], 16)), be(int(k['e'], 16)))).get('h')
            prv = p.op('create %s 0=u:3 0x100=u:0 1=b:0 2=b:0 0x120=x:%s 0x122=x:%s 0x123=x:%s 0x124=x:%s 0x125=x:%s 0x126=x:%s 0x127=x:%s 0x128=x:%s 0x108=b:1 0x105=b:1 0x107=b:1 0x103=b:0 0x162=b:1'
                       % (s, be(int(k['n'], 16)), be(int(k['e'], 16)), be(int(k['d'], 16)), be(int(k['p'], 16)), be(int(k['q'], 16)), be(int(k['dp'], 16)), be(int(k['dq'], 16)), be(int(k['qinv'], 16)))).get('h')
            sk = p.op('create %s 0=u:4 0x100=u:0x1f 1=b:0 2=b:0 0x11=x:%s 0x104=b:1 0x105=b:1 0x106=b:1 0x107=b:1 0x162=b:1 0x103=b:0' % (s, aes)).get('h')
            mechs = set(p.op('mechlist t0').get('mechs', '').split(','))
            H.append({'p': p, 's': s, 'pub': pub, 'prv': prv, 'aes': sk, 'mechs': mechs})
        common = H[0]['mechs'] & H[1]['mechs']
        names = ['OpenSSL', 'Botan']
        for _ in range(rng.randint(4, 7)):
            src = rng.randint(0, 1)
            A, B = H[src], H[1 - src]
            msg = bytes(rng.randrange(256) for _ in range(rng.randint(1, 60))).hex()
            case = rng.choice(['pkcs_sign', 'sha256_rsa', 'pss', 'sha256_pss', 'pkcs_enc', 'oaep', 'gcm', 'kwp', 'cbcpad'])
            what = None
            if case in ('pkcs_sign', 'sha256_rsa', 'pss', 'sha256_pss'):
                mech = {'pkcs_sign': '0x1', 'sha256_rsa': '0x40', 'pss': '0xd:pss:0x220:1:20', 'sha256_pss': '0x43:pss:0x250:2:32'}[case]
                if mech.split(':')[0] not in common:
                    continue
                data = msg if case != 'pss' else bytes(rng.randrange(256) for _ in range(20)).hex()
                if A['p'].rv('signinit %s %s %s' % (A['s'], mech, A['prv'])) != 0:
                    continue
                r = A['p'].op('sign %s %s 300' % (A['s'], data))
                if r.get('rv') != '0x0':
                    continue
                sig = r.get('out')
                if B['p'].rv('verifyinit %s %s %s' % (B['s'], mech, B['pub'])) != 0:
                    what = '%s refuses C_VerifyInit(%s) although it advertises the mechanism' % (names[1 - src], mech)
                else:
                    rv = B['p'].rv('verify %s %s %s' % (B['s'], data, sig))
                    if rv != 0:
                        what = 'a %s signature made under %s is rejected under %s (rv 0x%x)' % (case, names[src], names[1 - src], rv)
            elif case in ('pkcs_enc', 'oaep'):
                mech = {'pkcs_enc': '0x1', 'oaep': '0x9:oaep:0x220:1:1:'}[case]
                if mech.split(':')[0] not in common:
                    continue
                pt = msg[:60]
                if A['p'].rv('encinit %s %s %s' % (A['s'], mech, A['pub'])) != 0:
                    continue
                r = A['p'].op('enc %s %s 300' % (A['s'], pt))
                if r.get('rv') != '0x0':
                    continue
                B['p'].op('decinit %s %s %s' % (B['s'], mech, B['prv']))
                r2 = B['p'].op('dec %s %s 300' % (B['s'], r.get('out')))
                if r2.get('rv') != '0x0' or r2.get('out', '') != pt:
                    what = 'a %s ciphertext made under %s decrypts under %s to rv %s / other bytes' % (case, names[src], names[1 - src], r2.get('rv'))
            elif case == 'gcm':
                if '0x1087' not in common:
                    continue
                iv = bytes(rng.randrange(256) for _ in range(12)).hex()
                aad = bytes(rng.randrange(256) for _ in range(rng.randint(0, 20))).hex()
                mech = '0x1087:gcm:%s:%s:128' % (iv, aad)
                if A['p'].rv('encinit %s %s %s' % (A['s'], mech, A['aes'])) != 0:
                    continue
                r = A['p'].op('enc %s %s 300' % (A['s'], msg))
                if r.get('rv') != '0x0':
                    continue
                B['p'].op('decinit %s %s %s' % (B['s'], mech, B['aes']))
                r2 = B['p'].op('dec %s %s 300' % (B['s'], r.get('out')))
                if r2.get('rv') != '0x0' or r2.get('out', '') != msg:
                    what = 'an AES-GCM ciphertext made under %s decrypts under %s to rv %s / other bytes' % (names[src], names[1 - src], r2.get('rv'))
            else:
                mech = {'kwp': '0x210a', 'cbcpad': '0x1085:x:%s' % ('00' * 16)}[case]
                if mech.split(':')[0] not in common:
                    continue
                val = bytes(rng.randrange(256) for _ in range(rng.choice([16, 24, 32]))).hex()
                tk = A['p'].op('create %s 0=u:4 0x100=u:0x1f 1=b:0 2=b:0 0x11=x:%s 0x162=b:1 0x103=b:0' % (A['s'], val)).get('h')
                if not tk:
                    continue
                r = A['p'].op('wrap %s %s %s %s 300' % (A['s'], mech, A['aes'], tk))
                if r.get('rv') != '0x0':
                    continue
                r2 = B['p'].op('unwrap %s %s %s %s 0=u:4 0x100=u:0x1f 1=b:0 2=b:0 0x162=b:1 0x103=b:0' % (B['s'], mech, B['aes'], r.get('out')))
                got = B['p'].attr(B['s'], r2.get('h'), 0x11) if r2.get('rv') == '0x0' else None
                if got is None or got.hex() != val:
                    what = 'a key wrapped (%s) under %s unwraps under %s to rv %s / another value' % (case, names[src], names[1 - src], r2.get('rv'))
            if what:
                findings.append((what, len(B['p'].trace) - 1))
                break
    finally:
        tr = [('A:' + l[:150], r) for l, r in pa.trace] + [('B:' + l[:150], r) for l, r in pb.trace]
        pa.close()
        pb.close()
    return {'i': idx, 'trace': tr, 'findings': findings, 'model_dis': [], 'model_evals': 0, 'stats': {}}


def probe_db_copy(lib, p11drv):
    """C_CopyObject of a token object under the SQLite backend: the copy must exist with the source's attributes.
    -> None, or (message, ops)"""
    p = P11(p11drv, lib, backend='db')
    try:
        p.op('init')
        p.op('inittoken tfree 31323334 tok0')
        s = p.op('open t0 rw')['h']
        p.op('login %s 0 31323334' % s)
        a = p.op('create %s 0=u:0 1=b:1 2=b:0 3=x:4141 0x11=x:0102' % s).get('h')
        b = p.op('copy %s %s 3=x:4343' % (s, a))
        if b.get('rv') != '0x0':
            return None
        v = p.attr(s, b.get('h'), 0x11)
        tok = p.attr(s, b.get('h'), 0x1)
        if v != bytes([1, 2]) or tok != bytes([1]):
            return ('SQLite backend: C_CopyObject answers CKR_OK but the copy does not carry the attributes of the source (CKA_VALUE %s, CKA_TOKEN %s); under the file backend it does'
                    % (None if v is None else v.hex(), None if tok is None else tok.hex()), [l for l, _ in p.trace])
        return None
    finally:
        p.close()
