#!/usr/bin/env python3
"""K-enc (C06): what the token directory holds for private objects, read with an INDEPENDENT decoder.

The decoder uses nothing of SoftHSM: the object files are parsed by the extracted Coq codec, the PIN blobs are opened
with SHA-256 (hashlib) iterated 1500 + salt[7] times over salt || PIN and AES-256-CBC from tools/refcrypto.py (pure
Python), the attribute ciphertexts with the recovered master key.  Checked per history:
  * no non-trivial byte-string value of a private object occurs in clear anywhere below directories.tokendir
  * with the user PIN and with the SO PIN the decoder recovers the SAME master key and, for every private object,
    exactly the values C_GetAttributeValue returns; with a wrong PIN it recovers nothing
  * every stored ciphertext has its own IV
  * every file and directory carries no permission bit outside objectstore.umask"""
import os, random, hashlib, stat
import refcrypto as R
import kstore
from p11i import P11
from kcrypto import RSAKEYS, be

CKA_OS_SOPIN, CKA_OS_USERPIN = 0x8000534c + 0, 0x8000534d + 0       # corrected below from the codec output
MAGIC = b'RJR'
TYPES = kstore.ATTR_TYPES + [0x130, 0x131, 0x132, 0x124, 0x125, 0x126, 0x127, 0x128, 0x101]


def hexs(s):
    return s.encode().hex()


def open_blob(blob, pin):
    """salt(8) | IV(16) | AES-256-CBC(magic | key) -> master key or None"""
    if len(blob) < 8 + 16 + 16:
        return None
    salt, iv, ct = blob[:8], blob[8:24], blob[24:]
    if len(ct) % 16:
        return None
    h = hashlib.sha256(salt + pin).digest()
    for _ in range(1500 + salt[7] - 1):
        h = hashlib.sha256(h).digest()
    pt = R.pkcs7_unpad(R.cbc_dec(h, iv, ct))
    if pt is None or pt[:3] != MAGIC:
        return None
    return pt[3:]


def decrypt_attr(key, blob):
    if len(blob) < 32 or (len(blob) - 16) % 16:
        return None
    return R.pkcs7_unpad(R.cbc_dec(key, blob[:16], blob[16:]))


def seq_enc(lib, p11drv, seed, idx, codecdrv):
    rng = random.Random(seed * 57885161 + idx)
    um = rng.choice([None, None, '0077', '0027', '0022', '0007', '0277', '77', '27', '7', '177'])      # "in octal" (man page): with or without a leading zero
    p = P11(p11drv, lib, umask=um, keep=True)
    cd = kstore.Codec(codecdrv)
    findings = []
    stats = {'private_objects': 0, 'values_decrypted': 0, 'plaintext_searches': 0, 'files': 0, 'umask': um or 'default'}
    so = hexs('so%06d' % rng.randrange(10 ** 6))
    user = hexs('us%06d' % rng.randrange(10 ** 6))

    def bad(m):
        findings.append((m, len(p.trace) - 1))

    def uniq(n):
        return bytes(rng.randrange(256) for _ in range(n)).hex()
    try:
        p.op('init')
        p.op('inittoken tfree %s tok0' % so)
        s = p.op('open t0 rw')['h']
        p.op('login %s 0 %s' % (s, so))
        p.op('initpin %s %s' % (s, user))
        p.op('logout %s' % s)
        p.op('login %s 1 %s' % (s, user))
        k = RSAKEYS[idx % len(RSAKEYS)]
        wk = p.op('create %s 0=u:4 0x100=u:0x1f 1=b:1 2=b:1 3=x:%s 0x11=x:%s 0x106=b:1 0x107=b:1 0x10c=b:1 0x104=b:1 0x162=b:1 0x103=b:0' % (s, hexs('w%d' % idx), uniq(16))).get('h')
        ctr = [0]

        def L():
            ctr[0] += 1
            return uniq(6) + hexs('_%d' % ctr[0])
        def P(line):
            return p.op(line.replace(' 2=b:1', ' ' + P.pv))
        P.pv = '2=b:1'
        for _ in range(rng.randint(5, 9)):
            path = rng.choice(['create_data', 'create_key', 'create_rsa', 'create_dsa', 'create_dh', 'genkey', 'genpair', 'unwrap', 'derive', 'upgrade', 'setattr', 'setpin', 'sopin', 'cert'])
            tok = 1 if rng.random() < 0.85 else 0
            P.pv = rng.choice(['2=b:1'] * 4 + ['2=x:02', '2=x:80', '2=x:ff'])    # CKA_PRIVATE true is any non-zero CK_BBOOL
            # CKA_PRIVATE true is any non-zero CK_BBOOL: the canonical 1 mostly, sometimes 2 / 0x80 / 0xff
            pv = rng.choice(['2=b:1'] * 4 + ['2=x:02', '2=x:80', '2=x:ff'])
            if path == 'create_data':
                P('create %s 0=u:0 1=b:%d 2=b:1 3=x:%s 0x10=x:%s 0x11=x:%s 0x12=x:%s' % (s, tok, L(), uniq(7), uniq(rng.choice([5, 16, 33, 200, 3000])), uniq(5)))
            elif path == 'create_key':
                P('create %s 0=u:4 0x100=u:%s 1=b:%d 2=b:1 3=x:%s 0x102=x:%s 0x11=x:%s 0x162=b:1 0x103=b:0' % (s, rng.choice(['0x1f', '0x10']), tok, L(), uniq(6), uniq(rng.choice([16, 24, 32]))))
            elif path == 'create_rsa':
                P('create %s 0=u:3 0x100=u:0 1=b:%d 2=b:1 3=x:%s 0x120=x:%s 0x122=x:%s 0x123=x:%s 0x124=x:%s 0x125=x:%s 0x126=x:%s 0x127=x:%s 0x128=x:%s 0x103=b:0 0x162=b:1'
                     % (s, tok, L(), be(int(k['n'], 16)), be(int(k['e'], 16)), be(int(k['d'], 16)), be(int(k['p'], 16)), be(int(k['q'], 16)), be(int(k['dp'], 16)), be(int(k['dq'], 16)), be(int(k['qinv'], 16))))
            elif path == 'create_dsa':
                P('create %s 0=u:3 0x100=u:1 1=b:%d 2=b:1 3=x:%s 0x130=x:%s 0x131=x:%s 0x132=x:%s 0x11=x:%s 0x103=b:0 0x162=b:1' % (s, tok, L(), 'c1' + uniq(127), 'd1' + uniq(19), uniq(64), uniq(20)))
            elif path == 'create_dh':
                P('create %s 0=u:3 0x100=u:2 1=b:%d 2=b:1 3=x:%s 0x130=x:%s 0x132=x:%s 0x11=x:%s 0x103=b:0 0x162=b:1' % (s, tok, L(), 'c1' + uniq(127), uniq(16), uniq(24)))
            elif path == 'cert':
                P('create %s 0=u:1 0x80=u:0 1=b:%d 2=b:1 3=x:%s 0x101=x:%s 0x11=x:%s' % (s, tok, L(), '300b' + uniq(11), '3082' + uniq(40)))
            elif path == 'genkey':
                P('genkey %s 0x1080 0=u:4 0x100=u:0x1f 0x161=u:32 1=b:%d 2=b:1 3=x:%s 0x162=b:1 0x103=b:0' % (s, tok, L()))
            elif path == 'genpair':
                P('genpair %s 0x1040 0x180=x:06082a8648ce3d030107 1=b:%d 2=b:1 3=x:%s -- 1=b:%d 2=b:1 3=x:%s 0x103=b:0 0x162=b:1' % (s, tok, L(), tok, L()))
            elif path == 'unwrap' and wk:
                src = P('create %s 0=u:4 0x100=u:0x1f 1=b:0 2=b:1 0x11=x:%s 0x162=b:1 0x103=b:0' % (s, uniq(32))).get('h')
                if src:
                    bl = p.op('wrap %s 0x2109 %s %s 600' % (s, wk, src)).get('out')
                    if bl:
                        P('unwrap %s 0x2109 %s %s 0=u:4 0x100=u:0x1f 1=b:%d 2=b:1 3=x:%s 0x162=b:1 0x103=b:0' % (s, wk, bl, tok, L()))
            elif path == 'derive' and wk:
                P('derive %s 0x1104:sd:%s %s 0=u:4 0x100=u:0x10 0x161=u:32 1=b:%d 2=b:1 3=x:%s 0x162=b:1 0x103=b:0' % (s, uniq(32), wk, tok, L()))
            elif path == 'upgrade':
                pub = p.op('create %s 0=u:0 1=b:%d 2=b:0 3=x:%s 0x11=x:%s' % (s, tok, L(), uniq(24))).get('h')
                if pub:
                    p.op('copy %s %s 2=b:1 3=x:%s' % (s, pub, L()))
                    p.op('destroy %s %s' % (s, pub))
            elif path == 'setattr':
                v = kstore.view(p, s) or {}
                cand = [n for lab, (n, a) in v.items() if any(t == 2 and x == '01' for (t, l, x) in a)]
                if cand:
                    p.op('setattr %s %s 3=x:%s 0x102=x:%s' % (s, rng.choice(cand), L(), uniq(9)))
            elif path == 'setpin':
                new = hexs('us%06d' % rng.randrange(10 ** 6))
                if p.rv('setpin %s %s %s' % (s, user, new)) == 0:
                    user = new
            elif path == 'sopin':
                new = hexs('so%06d' % rng.randrange(10 ** 6))
                p.op('logout %s' % s)
                p.op('login %s 0 %s' % (s, so))
                if p.rv('setpin %s %s %s' % (s, so, new)) == 0:
                    so = new
                p.op('logout %s' % s)
                p.op('login %s 1 %s' % (s, user))
        # a second token: a call through ITS session on an object of the first one (known finding F23)
        if rng.random() < 0.25:
            p.op('inittoken tfree %s tok1' % so)
            s1 = p.op('open t1 rw').get('h')
            if s1 and p.rv('login %s 0 %s' % (s1, so)) == 0:
                p.op('initpin %s %s' % (s1, user))
                p.op('logout %s' % s1)
                p.op('login %s 1 %s' % (s1, user))
                victim = p.op('create %s 0=u:0 1=b:1 2=b:1 3=x:%s 0x11=x:%s' % (s, L(), uniq(12))).get('h')
                if victim and p.rv('setattr %s %s 3=x:%s' % (s1, victim, L())) == 0:
                    if p.rv('getattr %s %s 3:64' % (s, victim)) != 0:
                        bad('cross-token: C_SetAttributeValue through a session of another token succeeded on a private object and re-encrypted the value under that other token\'s master key; the object\'s own token can no longer read it')
                    p.op('destroy %s %s' % (s, victim))
                p.op('closeall t1')
        # what the API returns for every private token object
        v = kstore.strip(kstore.view(p, s, types=TYPES)) or {}
        p.op('fini')
        p.close()
        root = p.tokendir()
        blobs, blobs3, tok0dir = [], [], None
        for dirpath, dirs, files in os.walk(root):
            for name in dirs + files:
                full = os.path.join(dirpath, name)
                st = os.lstat(full)
                mode = stat.S_IMODE(st.st_mode)
                stats['files'] += 1
                mask = int(um, 8) if um else 0o077
                if mode & mask:
                    bad('%s %s has mode %04o, objectstore.umask = %s forbids %04o' % ('directory' if stat.S_ISDIR(st.st_mode) else 'file', name[-20:], mode, um or '0077 (default)', mode & mask))
            for name in files:
                data_ = open(os.path.join(dirpath, name), 'rb').read()
                blobs.append((name, data_))
                blobs3.append((name, data_, dirpath))
                if name == 'token.object' and b'tok0' in data_:
                    tok0dir = dirpath
        allbytes = b'\x00'.join(b for _, b in blobs)
        # 1. nothing of a private object in clear
        for lab, attrs in v.items():
            d = {t: (l, x) for (t, l, x) in attrs}
            if d.get(2, ('1', '00'))[1] != '01' or d.get(1, ('1', '00'))[1] != '01':
                continue
            stats['private_objects'] += 1
            for t, (l, x) in d.items():
                if t in (0x11, 0x3, 0x10, 0x12, 0x102, 0x101, 0x120, 0x122, 0x123, 0x124, 0x125, 0x126, 0x127, 0x128, 0x130, 0x131, 0x132, 0x180, 0x181, 0x90) and l not in ('-1', '0') and len(x) >= 10:
                    if t in (0x122, 0x180, 0x90):
                        continue         # public exponent / curve OID / check value: short public constants that also occur elsewhere
                    stats['plaintext_searches'] += 1
                    if bytes.fromhex(x) in allbytes:
                        bad('the value of attribute 0x%x (%d bytes) of the private object %s is in the token directory in clear' % (t, len(x) // 2, bytes.fromhex(lab.split('#')[0])[-6:]))
        # 2. the independent decoder
        tokfile = next((b for n, b in blobs if n == 'token.object' and b'tok0' in b), None)
        blobs = [(n, b) for (n, b, d_) in blobs3 if d_ == tok0dir] if tok0dir else blobs
        g, tattrs = kstore.parse_dec(cd.ask('dec', tokfile)) if tokfile else (None, None)
        if not tattrs:
            bad('token.object does not decode')
        else:
            sopin = next((bytes.fromhex(val) for t, (kd, val) in tattrs.items() if t & 0xFFFF == 0x534c + 0 and kd == 'x' and val != '.'), None)
            # the two blobs are the only binary attributes of 72 bytes in token.object
            cands = [(t, bytes.fromhex(val)) for t, (kd, val) in tattrs.items() if kd == 'x' and val != '.' and len(val) // 2 >= 56]
            keys = {}
            for t, b in cands:
                for who, pin in (('so', so), ('user', user)):
                    mk = open_blob(b, bytes.fromhex(pin))
                    if mk:
                        keys[who] = mk
                for wrong in (hexs('wrong123'), user[:-2] if len(user) > 8 else user + '00'):
                    if open_blob(b, bytes.fromhex(wrong)):
                        bad('a PIN blob opens with a wrong PIN')
            if 'user' not in keys or 'so' not in keys:
                bad('the independent decoder cannot open the %s PIN blob with the correct PIN' % ('user' if 'user' not in keys else 'SO'))
            elif keys['user'] != keys['so']:
                bad('the SO and the user PIN blobs wrap different master keys')
            else:
                mk = keys['user']
                if mk in allbytes:
                    bad('the master key is in the token directory in clear')
                ivs = []
                bylab = {}
                for lab, attrs in v.items():
                    bylab[lab.split('#')[0]] = {t: (l, x) for (t, l, x) in attrs}
                for name, b in blobs:
                    if not name.endswith('.object') or name == 'token.object':
                        continue
                    g, attrs = kstore.parse_dec(cd.ask('dec', b))
                    if not attrs or attrs.get(2, ('b', '0'))[1] != '1':
                        continue
                    lab_ct = attrs.get(3, ('x', '.'))[1]
                    lab = decrypt_attr(mk, bytes.fromhex(lab_ct)) if lab_ct != '.' else b''
                    if lab is None:
                        bad('the label of the private object file %s does not decrypt under the master key' % name[-14:])
                        continue
                    api = bylab.get(lab.hex())
                    for t, (kd, val) in attrs.items():
                        if kd != 'x' or val == '.':
                            continue
                        ct = bytes.fromhex(val)
                        pt = decrypt_attr(mk, ct)
                        if pt is None:
                            bad('attribute 0x%x of the private object file %s is not IV | AES-256-CBC ciphertext under the master key' % (t, name[-14:]))
                            continue
                        ivs.append(ct[:16])
                        stats['values_decrypted'] += 1
                        if api and t in api and api[t][0] != '-1' and api[t][1] != pt.hex():
                            bad('attribute 0x%x of %s: the independent decoder recovers %s..., C_GetAttributeValue returns %s...' % (t, name[-14:], pt.hex()[:24], api[t][1][:24]))
                if len(set(ivs)) != len(ivs):
                    bad('two stored ciphertexts share an IV')
    finally:
        try:
            p.close()
        except Exception:
            pass
        cd.close()
        import shutil
        shutil.rmtree(p.dir, ignore_errors=True)
    return {'i': idx, 'trace': [(l[:170], r) for l, r in p.trace], 'findings': findings[:3], 'model_dis': [], 'model_evals': stats['values_decrypted'], 'stats': stats}
