#!/usr/bin/env python3
"""K-thread (C18): harness/thrdrv runs two threads with their own sessions under a schedule controlled through the
application's mutex callbacks: thread A's call is stopped before its k-th LockMutex, thread B's call runs, A resumes; for
every k.  The concurrent outcome (both return codes and outputs, the final object set, handle uniqueness) must equal
the outcome of one of the two sequential orders, which the same driver produces without any concurrency."""
import os, subprocess, shutil, random
import vlib

SCENARIOS = ['find_find_unregistered', 'find_find', 'getattr_private_private', 'create_create', 'create_find', 'createsession_find', 'destroy_getattr',
             'setattr_getlabel', 'logout_getprivate', 'open_close', 'sign_sign', 'generate_generate', 'find_create', 'getattr_destroy', 'closelast_openlogin']


def run(thrdrv, lib, sc, k):
    d = vlib.mktmp('vt-')
    try:
        conf = vlib.write_conf(d)
        try:
            r = subprocess.run([thrdrv, lib, sc, str(k)], capture_output=True, text=True, env={'SOFTHSM2_CONF': conf}, timeout=60)
        except subprocess.TimeoutExpired:
            return {'raw': 'TIMEOUT'}
        line = r.stdout.strip().splitlines()[-1] if r.stdout.strip() else ''
        if not line.startswith('locks='):
            return {'raw': line or 'EXIT %d %s' % (r.returncode, r.stderr.strip()[-160:])}
        f = dict(x.split('=', 1) for x in line.split())
        return {'raw': line, 'locks': int(f['locks']), 'A': f['A'], 'B': f['B'], 'final': f['final'], 'dup': f['dup']}
    finally:
        shutil.rmtree(d, ignore_errors=True)


def stress_case(args):
    """free-running threads that only read unchanging objects (harness/thrdrv stress): every call must succeed with the bytes a
    sequential run gave; a process killed by a signal is a crash"""
    thrdrv, lib, threads, iters, idx = args[:5]
    mode = args[5] if len(args) > 5 else 'stress'
    d = vlib.mktmp('vt-')
    try:
        conf = vlib.write_conf(d)
        try:
            if mode == 'churn':
                threads = 4
            r = subprocess.run([thrdrv, lib, mode, str(threads), str(iters)], capture_output=True, text=True, errors='replace', env={'SOFTHSM2_CONF': conf}, timeout=90)
        except subprocess.TimeoutExpired:
            return {'i': idx, 'finding': 'stress run %d (%d threads x %d read-only calls) did not finish in 90 s' % (idx, threads, iters), 'raw': 'TIMEOUT'}
        line = r.stdout.strip().splitlines()[-1] if r.stdout.strip() else ''
        if r.returncode < 0:
            return {'i': idx, 'finding': '%s run %d: the process was killed by signal %d while %d threads %s' % (mode, idx, -r.returncode, threads, 'created / destroyed session objects and searched' if mode == 'churn' else 'only read unchanging objects'), 'raw': line}
        if line.startswith('stress ok'):
            return {'i': idx, 'finding': None, 'raw': line, 'calls': int(line.split('calls=')[1])}
        if line.startswith('stress bad') or line == 'TIMEOUT':
            return {'i': idx, 'finding': '%s run %d: a read-only call on an unchanging object gave another answer under concurrency: %s' % (mode, idx, line[:300]), 'raw': line}
        return {'i': idx, 'finding': 'stress run %d could not be set up: %s' % (idx, (line or r.stderr.strip())[-200:]), 'raw': line}
    finally:
        shutil.rmtree(d, ignore_errors=True)


def outcome(o):
    return (o.get('A'), o.get('B'), o.get('final'), o.get('dup'))


def thread_case(args):
    """one (scenario, k): returns dict(scenario, k, findings)"""
    thrdrv, lib, sc, k, seqs = args
    o = run(thrdrv, lib, sc, k)
    out = {'scenario': sc, 'k': k, 'findings': [], 'raw': o['raw'][:300]}
    if 'A' not in o:
        out['findings'].append('%s, A stopped before its LockMutex #%d: %s' % (sc, k, 'deadlock (nothing returned within 25 s)' if o['raw'] == 'TIMEOUT' else 'the process died: ' + o['raw'][:120]))
        return out
    if o['dup'] != '0':
        out['findings'].append('%s, A stopped before its LockMutex #%d: one object got two different handles (or a handle was issued twice)' % (sc, k))
    elif outcome(o) not in [outcome(s) for s in seqs]:
        out['findings'].append('%s, A stopped before its LockMutex #%d: the result (A=%s B=%s final=%s) is explained by neither sequential order (%s | %s)'
                               % (sc, k, o['A'][:40], o['B'][:40], o['final'][:60], ' '.join(str(x)[:40] for x in outcome(seqs[0])[:2]), ' '.join(str(x)[:40] for x in outcome(seqs[1])[:2])))
    return out
