#!/usr/bin/env python3
"""Run the repository's own test suite in a build dir and compare the passing test cases with
/root/.vp/BASELINE.json (stable_pass).  usage: run_baseline.py [build dir, default /repo/_build]
Exit 0 iff every baseline test passes."""
import sys, json, re, subprocess, os
bd = sys.argv[1] if len(sys.argv) > 1 else '/repo/_build'
base = set(json.load(open('/root/.vp/BASELINE.json'))['stable_pass'])
r = subprocess.run(['ctest', '--test-dir', bd, '-j8', '--timeout', '900'], capture_output=True, text=True)
log = open(os.path.join(bd, 'Testing/Temporary/LastTest.log'), errors='replace').read()
passed = set()
cur = None
for l in log.splitlines():
    m = re.match(r'\d+/\d+ Testing: (\S+)', l)
    if m:
        cur = m.group(1)
    m = re.match(r'(\S.*\S) : OK$', l)
    if m and cur:
        passed.add(cur + '::' + m.group(1))
for l in r.stdout.splitlines():
    m = re.search(r'Test\s+#\d+:\s+(\S+)\s+\.+\s+Passed', l)
    if m:
        passed.add(m.group(1) + '::' + m.group(1))
missing = sorted(base - passed)
print('baseline tests: %d, passing now: %d of them; other passing: %d' % (len(base), len(base & passed), len(passed - base)))
for m in missing:
    print('NOT PASSING:', m)
sys.exit(1 if missing else 0)
