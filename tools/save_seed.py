#!/usr/bin/env python3
"""copy a confirmed seeded change into /verif/seeded/<id>/ with meta.json
usage: save_seed.py <src dir> <property> <needs> <confirm summary line>"""
import sys, os, shutil, json
src, prop, needs, ran = sys.argv[1:5]
name = os.path.basename(src.rstrip('/'))
dst = os.path.join(os.path.dirname(os.path.dirname(os.path.abspath(__file__))), 'seeded', name)
os.makedirs(dst, exist_ok=True)
for f in os.listdir(src):
    p = os.path.join(src, f)
    if os.path.isfile(p) and os.path.getsize(p) < 200000 and not os.access(p, os.X_OK) or f.endswith(('.cpp', '.sh', '.diff', '.txt', '.cnf')):
        shutil.copy(p, dst)
json.dump({'id': name, 'property': prop, 'breaks': prop, 'needs_to_manifest': needs,
           'what_i_ran': ran, 'origin': 'independent sub-agent given only the property text and its own scratch worktree'},
          open(os.path.join(dst, 'meta.json'), 'w'), indent=1)
print('saved', dst)
