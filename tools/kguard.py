#!/usr/bin/env python3
"""K-guard (C07): operation x key class/type x usage flag x mechanism x CKA_ALLOWED_MECHANISMS x slots.mechanisms on the
built library.  The finding rule is the property's decision rule read one way: a call that STARTS (CKR_OK) must have
had the usage flag, a fitting key, an allowed and an advertised mechanism; a mechanism the configuration removed is
refused by every entry point that takes one."""
import os, re, random
from p11i import P11
from kcrypto import RSAKEYS, be, hx, Ctx
import vlib
import refcrypto as R

CKM = {}
NAME = {}


def load_ckm():
    if not CKM:
        for k, v in re.findall(r'Definition (CKM_\w+) : N := (\d+)\.', open(os.path.join(vlib.GEN, 'Gen_Const.v')).read()):
            CKM[k] = int(v)
            NAME[int(v)] = k


AES_M = ['CKM_AES_ECB', 'CKM_AES_CBC', 'CKM_AES_CBC_PAD', 'CKM_AES_CTR', 'CKM_AES_GCM']
DES3_M = ['CKM_DES3_ECB', 'CKM_DES3_CBC', 'CKM_DES3_CBC_PAD']
HMAC_M = ['CKM_SHA_1_HMAC', 'CKM_SHA256_HMAC', 'CKM_SHA512_HMAC', 'CKM_MD5_HMAC']
RSA_ENC = ['CKM_RSA_PKCS', 'CKM_RSA_PKCS_OAEP', 'CKM_RSA_X_509']
RSA_SIG = ['CKM_RSA_PKCS', 'CKM_SHA256_RSA_PKCS', 'CKM_SHA1_RSA_PKCS', 'CKM_RSA_PKCS_PSS', 'CKM_RSA_X_509']
DIGESTS = ['CKM_MD5', 'CKM_SHA_1', 'CKM_SHA224', 'CKM_SHA256', 'CKM_SHA384', 'CKM_SHA512']
KEYGEN = ['CKM_AES_KEY_GEN', 'CKM_GENERIC_SECRET_KEY_GEN', 'CKM_DES3_KEY_GEN', 'CKM_DES2_KEY_GEN']
WRAP_M = ['CKM_AES_KEY_WRAP', 'CKM_AES_KEY_WRAP_PAD', 'CKM_AES_CBC_PAD', 'CKM_RSA_PKCS', 'CKM_RSA_PKCS_OAEP']
DERIVE_M = ['CKM_CONCATENATE_BASE_AND_DATA', 'CKM_CONCATENATE_DATA_AND_BASE', 'CKM_AES_ECB_ENCRYPT_DATA', 'CKM_AES_CBC_ENCRYPT_DATA', 'CKM_DES3_ECB_ENCRYPT_DATA']
ALL_M = sorted(set(AES_M + DES3_M + HMAC_M + RSA_ENC + RSA_SIG + DIGESTS + KEYGEN + WRAP_M + DERIVE_M + ['CKM_AES_CMAC', 'CKM_RSA_PKCS_KEY_PAIR_GEN', 'CKM_EC_KEY_PAIR_GEN', 'CKM_DES3_CMAC']))

USAGE = {'encinit': 0x104, 'decinit': 0x105, 'signinit': 0x108, 'verifyinit': 0x10a, 'wrap': 0x106, 'unwrap': 0x107, 'derive': 0x10c}


def mech_arg(name, rng):
    n = CKM[name]
    iv16, iv8 = '00' * 16, '00' * 8
    if name in ('CKM_AES_CBC', 'CKM_AES_CBC_PAD'):
        return '0x%x:x:%s' % (n, iv16)
    if name in ('CKM_DES3_CBC', 'CKM_DES3_CBC_PAD'):
        return '0x%x:x:%s' % (n, iv8)
    if name == 'CKM_AES_CTR':
        return '0x%x:ctr:128:%s' % (n, iv16)
    if name == 'CKM_AES_GCM':
        return '0x%x:gcm:%s::128' % (n, '00' * 12)
    if name == 'CKM_RSA_PKCS_OAEP':
        return '0x%x:oaep:0x220:1:1:' % n
    if name == 'CKM_RSA_PKCS_PSS':
        return '0x%x:pss:0x220:1:20' % n
    if name in ('CKM_CONCATENATE_BASE_AND_DATA', 'CKM_CONCATENATE_DATA_AND_BASE'):
        return '0x%x:sd:0102030405060708' % n
    if name in ('CKM_AES_ECB_ENCRYPT_DATA',):
        return '0x%x:sd:%s' % (n, iv16)
    if name == 'CKM_AES_CBC_ENCRYPT_DATA':
        return '0x%x:kd:%s:%s' % (n, iv16, iv16)
    if name == 'CKM_DES3_ECB_ENCRYPT_DATA':
        return '0x%x:sd:%s' % (n, iv8)
    return '0x%x' % n


def fits(name, op, cls, ktype):
    """does the key's class and type fit the mechanism for this operation (PKCS#11 mechanism tables)"""
    sym = cls == 4
    if name in AES_M or name in ('CKM_AES_CMAC', 'CKM_AES_KEY_WRAP', 'CKM_AES_KEY_WRAP_PAD', 'CKM_AES_ECB_ENCRYPT_DATA', 'CKM_AES_CBC_ENCRYPT_DATA'):
        return sym and ktype == 0x1f
    if name in DES3_M or name in ('CKM_DES3_CMAC', 'CKM_DES3_ECB_ENCRYPT_DATA'):
        return sym and ktype in (0x14, 0x15)
    if name in HMAC_M:
        return sym and ktype in (0x10, {'CKM_SHA_1_HMAC': 0x28, 'CKM_SHA256_HMAC': 0x2B, 'CKM_SHA512_HMAC': 0x2D, 'CKM_MD5_HMAC': 0x27}[name])
    if name.startswith('CKM_RSA') or name.endswith('RSA_PKCS'):
        want = 2 if op in ('encinit', 'verifyinit', 'wrap') else 3
        return cls == want and ktype == 0
    if name.startswith('CKM_CONCATENATE'):
        return sym
    return True


def seq_guard(lib, p11drv, seed, idx):
    load_ckm()
    rng = random.Random(seed * 32452843 + idx)
    mode = rng.choice(['ALL', 'positive', 'negative', 'negative', 'positive'])
    if mode == 'ALL':
        conf = 'ALL'
        removed = set()
    elif mode == 'positive':
        keep = set(rng.sample(ALL_M, rng.randint(3, len(ALL_M) - 3)))
        names = sorted(keep)
        if rng.random() < 0.5:
            names += rng.sample(names, rng.randint(1, 3))      # repeated names are legal in the list
            rng.shuffle(names)
        conf = ','.join(names)
        removed = None
    else:
        removed = set(rng.sample(ALL_M, rng.randint(1, 12)))
        conf = '-' + ','.join(sorted(removed))
    p = P11(p11drv, lib, mechanisms=conf)
    c = Ctx(p)
    stats = {'cells': 0, 'started': 0}
    try:
        p.op('init')
        p.op('inittoken tfree 31323334 tok0')
        s = p.op('open t0 rw').get('h')
        p.op('login %s 0 31323334' % s)
        p.op('initpin %s 35363738' % s)
        p.op('logout %s' % s)
        p.op('login %s 1 35363738' % s)
        r = p.op('mechlist t0')
        if r.get('ovw') == '1' or 'count_second' in r:
            c.bad('C_GetMechanismList: the count announced for a NULL buffer (%s) and the list then written (%s entries%s) do not agree'
                  % (r.get('count_first', '?'), r.get('count_second', '?'), ', beyond the buffer' if r.get('ovw') == '1' else ''))
        adv = set(int(x, 16) for x in r.get('mechs', '').split(',') if x)
        # the advertised list is exactly what the configuration says
        for nm in ALL_M:
            n = CKM[nm]
            should = (mode == 'ALL') or (mode == 'positive' and nm in keep) or (mode == 'negative' and nm not in removed)
            if not should and n in adv:
                c.bad('%s is advertised by C_GetMechanismList although slots.mechanisms = %s removes it' % (nm, conf[:60]))
        # keys: usage flag value and allowed-mechanism list vary per key
        keys = []

        def flagset(on, attrs):
            """usage attribute -> bool: all on, all off, or (on == 'mixed') each flag on its own"""
            return {a: (bool(on) if on != 'mixed' else rng.random() < 0.5) for a in attrs}

        def flags(fs):
            return ' '.join('0x%x=b:%d' % (a, 1 if v else 0) for a, v in sorted(fs.items()))

        def allowed(kind, pool):
            if kind == 'none':
                return '', None
            ms = rng.sample(pool, min(len(pool), rng.randint(1, 3)))
            return ' 0x40000600=m:%s' % ';'.join('0x%x' % CKM[m] for m in ms), set(CKM[m] for m in ms)

        for (cls, kt, val, pool) in ((4, 0x1f, '11' * 16, AES_M + ['CKM_AES_CMAC', 'CKM_AES_KEY_WRAP', 'CKM_AES_KEY_WRAP_PAD']),
                                     (4, 0x10, '22' * 32, HMAC_M + ['CKM_CONCATENATE_BASE_AND_DATA']), (4, 0x15, '0123456789abcdef' * 3, DES3_M)):
            for on in (True, False, 'mixed', 'mixed'):
                al, aset = allowed(rng.choice(['none', 'some', 'some']), pool)
                fs = flagset(on, sorted(set(USAGE.values())))
                r = p.op('create %s 0=u:%d 0x100=u:0x%x 0x11=x:%s 1=b:0 2=b:0 0x162=b:1 0x103=b:0 %s%s' % (s, cls, kt, val, flags(fs), al))
                if r.get('rv') == '0x0':
                    keys.append({'h': r['h'], 'cls': cls, 'kt': kt, 'on': on is True, 'flags': fs, 'allowed': aset, 'val': bytes.fromhex(val)})
        k = RSAKEYS[0]
        n_, e_, d_ = int(k['n'], 16), int(k['e'], 16), int(k['d'], 16)
        for on in (True, False, 'mixed'):
            al, aset = allowed(rng.choice(['none', 'some']), RSA_ENC + RSA_SIG)
            fs = flagset(on, (0x104, 0x10a, 0x106))
            r = p.op('create %s 0=u:2 0x100=u:0 0x120=x:%s 0x122=x:%s 1=b:0 2=b:0 %s%s' % (s, be(n_), be(e_), flags(fs), al))
            if r.get('rv') == '0x0':
                keys.append({'h': r['h'], 'cls': 2, 'kt': 0, 'on': on is True, 'flags': fs, 'allowed': aset})
            al, aset = allowed(rng.choice(['none', 'some']), RSA_ENC + RSA_SIG)
            fs3 = flagset(on, (0x105, 0x108, 0x107))
            r = p.op('create %s 0=u:3 0x100=u:0 0x120=x:%s 0x122=x:%s 0x123=x:%s 0x124=x:%s 0x125=x:%s 0x126=x:%s 0x127=x:%s 0x128=x:%s 1=b:0 2=b:0 0x103=b:0 0x162=b:1 %s%s'
                     % (s, be(n_), be(e_), be(d_), be(int(k['p'], 16)), be(int(k['q'], 16)), be(int(k['dp'], 16)), be(int(k['dq'], 16)), be(int(k['qinv'], 16)),
                        flags(fs3), al))
            if r.get('rv') == '0x0':
                keys.append({'h': r['h'], 'cls': 3, 'kt': 0, 'on': on is True, 'flags': fs3, 'allowed': aset})
        target = next((x['h'] for x in keys if x['cls'] == 4 and x['kt'] == 0x10), None)
        # cells
        for _ in range(70):
            op = rng.choice(['encinit', 'decinit', 'signinit', 'verifyinit', 'wrap', 'derive', 'digestinit', 'genkey', 'genpair', 'unwrap'])
            stats['cells'] += 1
            if op == 'digestinit':
                nm = rng.choice(DIGESTS + ['CKM_AES_ECB'])
                rv = p.rv('digestinit %s %s' % (s, mech_arg(nm, rng)))
                if rv == 0:
                    stats['started'] += 1
                    p.op('digestfin %s 80' % s)
                    if CKM[nm] not in adv:
                        c.bad('C_DigestInit accepted %s which the configuration removed from the mechanism list' % nm)
                continue
            if op == 'genkey':
                nm = rng.choice(KEYGEN)
                kt = {'CKM_AES_KEY_GEN': 0x1f, 'CKM_GENERIC_SECRET_KEY_GEN': 0x10, 'CKM_DES3_KEY_GEN': 0x15, 'CKM_DES2_KEY_GEN': 0x14}[nm]
                r = p.op('genkey %s 0x%x 0=u:4 0x100=u:0x%x 0x161=u:16 1=b:0 2=b:0' % (s, CKM[nm], kt))
                if r.get('rv') == '0x0':
                    stats['started'] += 1
                    if CKM[nm] not in adv:
                        c.bad('C_GenerateKey accepted %s which the configuration removed from the mechanism list' % nm)
                continue
            if op == 'genpair':
                if rng.random() < 0.7:
                    nm = 'CKM_EC_KEY_PAIR_GEN'
                    r = p.op('genpair %s 0x%x 0x180=x:06082a8648ce3d030107 1=b:0 2=b:0 -- 1=b:0 2=b:0' % (s, CKM[nm]))
                else:
                    nm = 'CKM_RSA_PKCS_KEY_PAIR_GEN'
                    r = p.op('genpair %s 0x%x 0x121=u:1024 0x122=x:010001 1=b:0 2=b:0 -- 1=b:0 2=b:0' % (s, CKM[nm]))
                if r.get('rv') == '0x0':
                    stats['started'] += 1
                    if CKM[nm] not in adv:
                        c.bad('C_GenerateKeyPair accepted %s which the configuration removed from the mechanism list' % nm)
                continue
            cand = [x for x in keys if x['cls'] == 4 or (x['cls'] == 2 and op in ('encinit', 'verifyinit', 'wrap')) or (x['cls'] == 3 and op in ('decinit', 'signinit', 'unwrap'))]
            if rng.random() < 0.7:
                cand = [x for x in cand if x['flags'].get(USAGE[op], x['on'])] or cand
            key = rng.choice(cand) if cand and rng.random() < 0.85 else rng.choice(keys)
            pool = {'encinit': AES_M + DES3_M + RSA_ENC, 'decinit': AES_M + DES3_M + RSA_ENC, 'signinit': HMAC_M + RSA_SIG + ['CKM_AES_CMAC', 'CKM_DES3_CMAC'],
                    'verifyinit': HMAC_M + RSA_SIG + ['CKM_AES_CMAC'], 'wrap': WRAP_M, 'unwrap': WRAP_M, 'derive': DERIVE_M}[op]
            fitting = [m for m in pool if fits(m, op, key['cls'], key['kt'])]
            nm = rng.choice(fitting) if fitting and rng.random() < 0.75 else rng.choice(pool)
            marg = mech_arg(nm, rng)
            if op == 'wrap':
                r = p.op('wrap %s %s %s %s 600' % (s, marg, key['h'], target))
            elif op == 'unwrap':
                blob = bytes([0xab]) * 24
                kv = key.get('val')
                try:
                    if nm == 'CKM_AES_KEY_WRAP' and kv and len(kv) in (16, 24, 32):
                        blob = R.kw_wrap(kv, b'\x42' * 16)
                    elif nm == 'CKM_AES_KEY_WRAP_PAD' and kv and len(kv) in (16, 24, 32):
                        blob = R.kwp_wrap(kv, b'\x42' * 13)
                    elif nm == 'CKM_AES_CBC_PAD' and kv and len(kv) in (16, 24, 32):
                        blob = R.cbc_enc(kv, bytes(16), R.pkcs7_pad(b'\x42' * 20))
                    elif nm == 'CKM_RSA_PKCS' and key['cls'] in (2, 3):
                        em = b'\x00\x02' + bytes([0x55]) * (128 - 3 - 16) + b'\x00' + b'\x42' * 16
                        blob = pow(int.from_bytes(em, 'big'), e_, n_).to_bytes(128, 'big')
                except Exception:
                    pass
                r = p.op('unwrap %s %s %s %s 0=u:4 0x100=u:0x10 1=b:0 2=b:0' % (s, marg, key['h'], blob.hex()))
            elif op == 'derive':
                r = p.op('derive %s %s %s 0=u:4 0x100=u:0x10 0x161=u:8 1=b:0 2=b:0' % (s, marg, key['h']))
            else:
                r = p.op('%s %s %s %s' % (op, s, marg, key['h']))
            ok = r.get('rv') == '0x0'
            if ok:
                stats['started'] += 1
                if op in ('encinit', 'decinit', 'signinit', 'verifyinit'):
                    # end the operation
                    p.op({'encinit': 'encfin %s 600', 'decinit': 'decfin %s 600', 'signinit': 'signfin %s 600', 'verifyinit': 'verifyfin %s 00'}[op] % s)
                    p.op({'encinit': 'enc %s 00 600', 'decinit': 'dec %s 00 600', 'signinit': 'sign %s 00 600', 'verifyinit': 'verify %s 00 00'}[op] % s)
                what = '%s with %s on a %s key' % (op, nm, {(4, 0x1f): 'AES', (4, 0x10): 'generic secret', (4, 0x15): 'DES3', (2, 0): 'RSA public', (3, 0): 'RSA private'}[(key['cls'], key['kt'])])
                if not key['flags'].get(USAGE[op], True):
                    c.bad('%s started although the usage attribute 0x%x is false (the key\'s usage flags: %s)' % (what, USAGE[op], ' '.join('0x%x=%d' % (a, v) for a, v in sorted(key['flags'].items()))))
                if CKM[nm] not in adv:
                    c.bad('%s started although the configuration removed the mechanism from the advertised list' % what)
                if key['allowed'] is not None and CKM[nm] not in key['allowed']:
                    c.bad('%s started although CKA_ALLOWED_MECHANISMS does not list the mechanism' % what)
                if not fits(nm, op, key['cls'], key['kt']):
                    c.bad('%s started although the key class / type does not fit the mechanism' % what)
            if c.findings:
                break
        # CKA_ALWAYS_AUTHENTICATE: no output before a context-specific login
        if not c.findings and CKM['CKM_RSA_PKCS'] in adv:
            r = p.op('create %s 0=u:3 0x100=u:0 0x120=x:%s 0x122=x:%s 0x123=x:%s 0x124=x:%s 0x125=x:%s 0x126=x:%s 0x127=x:%s 0x128=x:%s 1=b:0 2=b:1 0x108=b:1 0x105=b:1 0x202=b:1'
                     % (s, be(n_), be(e_), be(d_), be(int(k['p'], 16)), be(int(k['q'], 16)), be(int(k['dp'], 16)), be(int(k['dq'], 16)), be(int(k['qinv'], 16))))
            if r.get('rv') == '0x0':
                hk = r['h']
                which = rng.choice(['sign', 'signupd', 'dec'])
                if which == 'dec':
                    p.op('decinit %s 0x1 %s' % (s, hk))
                    r2 = p.op('dec %s %s 200' % (s, '00' * 128))
                else:
                    p.op('signinit %s 0x%x %s' % (s, 0x1 if which == 'sign' else 0x40, hk))
                    if which == 'signupd':
                        p.op('signupd %s 0102' % s)
                        r2 = p.op('signfin %s 200' % s)
                    else:
                        r2 = p.op('sign %s 0102 200' % s)
                if r2.get('rv') == '0x0' and r2.get('out'):
                    c.bad('a private-key operation on a CKA_ALWAYS_AUTHENTICATE key produced output before the context-specific login')
                p.op('signinit %s 0x1 %s' % (s, hk))
                p.op('login %s 2 %s' % (s, rng.choice(['35363738', '3030303030'])))
    finally:
        p.close()
    return {'i': idx, 'trace': p.trace, 'findings': c.findings, 'model_dis': [], 'model_evals': 0, 'stats': stats, 'mode': mode}


CLASS_TEMPLATES = [
    ('data', '0=u:0 0x11=x:0102'),
    ('X.509 certificate', '0=u:1 0x80=u:0 0x101=x:3000 0x11=x:3082'),
    ('RSA public key', '0=u:2 0x100=u:0 0x120=x:%s 0x122=x:010001' % ('c3' * 64)),
    ('EC public key', '0=u:2 0x100=u:3 0x180=x:06082a8648ce3d030107 0x181=x:0441%s' % ('04' + '17' * 64)),
    ('AES secret key', '0=u:4 0x100=u:0x1f 0x11=x:%s' % ('6b' * 16)),
    ('generic secret key', '0=u:4 0x100=u:0x10 0x11=x:%s' % ('6c' * 20)),
    ('EC private key', '0=u:3 0x100=u:3 0x180=x:06082a8648ce3d030107 0x11=x:%s' % ('21' * 32)),
    ('DSA domain parameters', '0=u:6 0x100=u:1 0x130=x:%s 0x131=x:%s 0x132=x:%s' % ('d1' * 64, 'd2' * 20, 'd3' * 64)),
    ('DH domain parameters', '0=u:6 0x100=u:2 0x130=x:%s 0x132=x:02' % ('e1' * 64)),
]


def class_walk(c, rng, s, state):
    """C_CreateObject of every object class with CKA_PRIVATE left to the default, in a session without the normal user: when
    the call succeeds, the normal user then logs in and READS the object's CKA_PRIVATE - it must be false (no expectation
    about which classes default to which value is built in); a session object that is gone after the SO's logout was private"""
    p = c.p
    for (name, tm) in rng.sample(CLASS_TEMPLATES, rng.randint(3, len(CLASS_TEMPLATES))):
        tok = rng.choice([0, 1])
        lab = ('cw%d%s' % (rng.randrange(10 ** 6), name[:2])).encode().hex()
        r = p.op('create %s %s 1=b:%d 3=x:%s' % (s, tm, tok, lab))
        if r.get('rv') != '0x0':
            continue
        if state.startswith('so'):
            p.op('logout %s' % s)
        if p.op('login %s 1 35363738' % s).get('rv') != '0x0':
            return
        p.op('findfinal %s' % s)
        p.op('findinit %s 3=x:%s' % (s, lab))
        found = [x for x in p.op('find %s 10' % s).get('objs', '').split(',') if x]
        p.op('findfinal %s' % s)
        if not found:
            if state.startswith('so') and not tok:
                c.bad('C_CreateObject of a %s without CKA_PRIVATE in an SO session created a private object (it was destroyed by the SO\'s C_Logout as private session objects are)' % name)
        for h in found:
            v = p.attr(s, h, 2)
            if v is not None and v != b'\x00':
                c.bad('C_CreateObject of a %s without CKA_PRIVATE in a %s session succeeded and the object is private (CKA_PRIVATE reads %s once the user is logged in)' % (name, state.replace('_', ' '), v.hex()))
        p.op('logout %s' % s)
        if state.startswith('so'):
            p.op('login %s 0 31323334' % s)
        if c.findings:
            return


def seq_c01_create(lib, p11drv, seed, idx):
    """C01 for the object-CREATING calls: in a session where the normal user is not logged in, no path (create, generate,
    generate pair, unwrap, derive, copy) may produce a private object - whether the template says CKA_PRIVATE = true or
    leaves it to the default - and token objects need an R/W session"""
    load_ckm()
    rng = random.Random(seed * 49979693 + idx)
    p = P11(p11drv, lib)
    c = Ctx(p)
    try:
        p.op('init')
        p.op('inittoken tfree 31323334 tok0')
        s0 = p.op('open t0 rw').get('h')
        p.op('login %s 0 31323334' % s0)
        p.op('initpin %s 35363738' % s0)
        p.op('logout %s' % s0)
        p.op('close %s' % s0)
        for _ in range(rng.randint(3, 5)):
            state = rng.choice(['public_rw', 'public_ro', 'so_rw', 'user_rw', 'user_ro'])
            s = p.op('open t0 %s' % ('ro' if state.endswith('ro') else 'rw')).get('h')
            if state.startswith('so'):
                p.op('login %s 0 31323334' % s)
            if state.startswith('user'):
                p.op('login %s 1 35363738' % s)
            # a public session object as base / wrapping key and as copy source (always allowed)
            base = p.op('create %s 0=u:4 0x100=u:0x1f 1=b:0 2=b:0 0x11=x:%s 0x162=b:1 0x103=b:0 0x10c=b:1 0x106=b:1 0x107=b:1 0x104=b:1' % (s, '5a' * 16)).get('h')
            if not base:
                p.op('closeall t0')
                continue
            blob = p.op('wrap %s 0x2109 %s %s 600' % (s, base, base)).get('out', 'ab' * 24)
            for _ in range(rng.randint(5, 9)):
                path = rng.choice(['create', 'genkey', 'genpair', 'unwrap', 'derive', 'derive_concat', 'copy'])
                priv = rng.choice(['1', '1', 'omit', '0'])
                tok = rng.choice(['0', '0', '1', 'omit'])
                tm = ('' if priv == 'omit' else ' 2=b:%s' % priv) + ('' if tok == 'omit' else ' 1=b:%s' % tok)
                if path == 'create':
                    r = p.op('create %s 0=u:4 0x100=u:0x1f 0x11=x:%s%s' % (s, '6b' * 16, tm))
                elif path == 'genkey':
                    r = p.op('genkey %s 0x1080 0=u:4 0x100=u:0x1f 0x161=u:16%s' % (s, tm))
                elif path == 'genpair':
                    r = p.op('genpair %s 0x1040 0x180=x:06082a8648ce3d030107 2=b:0 -- %s' % (s, tm.strip() or '0x108=b:1'))
                elif path == 'unwrap':
                    r = p.op('unwrap %s 0x2109 %s %s 0=u:4 0x100=u:0x1f%s' % (s, base, blob, tm))
                elif path == 'derive':
                    r = p.op('derive %s 0x1104:sd:%s %s 0=u:4 0x100=u:0x10 0x161=u:16%s' % (s, '11' * 16, base, tm))
                elif path == 'derive_concat':
                    r = p.op('derive %s 0x362:sd:0102030405060708 %s 0=u:4 0x100=u:0x10%s' % (s, base, tm))
                else:
                    r = p.op('copy %s %s %s' % (s, base, tm.strip() or '3=x:6363'))
                ok = r.get('rv') == '0x0'
                # copy without CKA_PRIVATE keeps the source's (public); every other path defaults to private
                is_priv = priv == '1' or (priv == 'omit' and path != 'copy')
                is_tok = tok == '1'
                if ok and is_priv and not state.startswith('user'):
                    c.bad('%s in a %s session created a private object (template CKA_PRIVATE %s)' % (path, state.replace('_', ' '), 'true' if priv == '1' else 'left to the default'))
                if ok and is_tok and state.endswith('ro'):
                    c.bad('%s in a read-only session created a token object' % path)
                if c.findings:
                    break
            if not c.findings and not state.startswith('user') and state.endswith('rw'):
                class_walk(c, rng, s, state)
            p.op('closeall t0')
            if c.findings:
                break
    finally:
        p.close()
    return {'i': idx, 'trace': p.trace, 'findings': c.findings, 'model_dis': [], 'model_evals': 0, 'stats': {}}
