#!/usr/bin/env python3
"""K-proc (C15): two or three processes on one token directory.

Call granularity: a ghost map label -> attributes is updated by every successful create / set / destroy of a TOKEN
object; after each step a randomly chosen OTHER process looks (C_FindObjects + C_GetAttributeValue, no re-initialisation)
and must see exactly the ghost; a handle it still holds for an object another process destroyed must be invalid.

File-operation granularity: process A's writing call is paused by harness/fsshim.so just before its k-th file-system
call, process B performs a complete call (on another object, on the same object, a search), A is released; afterwards
every process must see a state that some serial order of the two calls explains, and every object file must decode."""
import os, random
import vlib, kstore
from p11i import P11

SO, USER = kstore.SO, kstore.USER
VIEW_TYPES = [0, 1, 2, 3, 0x11, 0x102, 0x170]


def hexs(s):
    return s.encode().hex()


class Proc:
    def __init__(self, lib, drv, shim, d, shimmed, lstat=False):
        env = {}
        self.ctl = os.path.join(d, 'ctl.%d' % id(self))
        if shimmed:
            env = {'LD_PRELOAD': shim, 'FSSHIM_CTL': self.ctl, 'FSSHIM_LOG': os.path.join(d, 'log.%d' % id(self)), 'FSSHIM_DIR': os.path.join(d, 'tokens')}
            if lstat:
                env['FSSHIM_LSTAT'] = '1'
        self.p = P11(drv, lib, reuse=d, env_extra=env)
        self.p.timeout = 60
        self.gen = 0
        self.s = None
        self.handles = {}      # label -> handle name in this process

    def arm(self, text):
        self.gen += 1
        tmp = self.ctl + '.tmp'
        with open(tmp, 'w') as f:
            f.write('%d %s\n' % (self.gen, text))
        os.replace(tmp, self.ctl)

    def start(self):
        if self.p.rv('init') != 0:
            return False
        self.s = self.p.op('open t0 rw').get('h')
        return self.s is not None and self.p.rv('login %s 1 %s' % (self.s, USER)) == 0

    def look(self):
        """token objects as this process sees them now: label -> attrs; refreshes the label -> handle map"""
        v = kstore.view(self.p, self.s, types=VIEW_TYPES)
        if v is None:
            return None
        out = {}
        for lab, (n, a) in v.items():
            if any(t == 1 and x == '01' for (t, l, x) in a):
                out[lab] = a
                self.handles[lab.split('#')[0]] = n
        return out


def ghost_attrs(label, value, app, oid, ident=None):
    return {'label': label, 'value': value, 'app': app, 'oid': oid}


def as_ghost(attrs):
    d = {t: (l, x) for (t, l, x) in attrs}
    return {'label': d.get(3, ('', ''))[1], 'value': d.get(0x11, ('', ''))[1], 'app': '', 'oid': d.get(0x102, ('', ''))[1]}


def seq_proc(lib, p11drv, seed, idx, shim):
    rng = random.Random(seed * 15487469 + idx)
    nproc = rng.choice([2, 2, 3])
    setup = P11(p11drv, lib, keep=True)
    d = setup.dir
    findings = []
    stats = {'steps': 0, 'cross_views': 0, 'stale_handle_checks': 0, 'processes': nproc}
    procs = []
    trace = []

    def bad(m):
        findings.append((m, len(trace)))
    try:
        setup.op('init')
        setup.op('inittoken tfree %s tok0' % SO)
        s0 = setup.op('open t0 rw')['h']
        setup.op('login %s 0 %s' % (s0, SO))
        setup.op('initpin %s %s' % (s0, USER))
        setup.op('fini')
        setup.close()
        procs = [Proc(lib, p11drv, shim, d, False) for _ in range(nproc)]
        for q in procs:
            if not q.start():
                bad('a process cannot open the shared token')
                return {'i': idx, 'trace': [], 'findings': findings, 'model_dis': [], 'model_evals': 0, 'stats': stats}
        ghost = {}      # label -> ghost attrs
        ctr = [0]

        def newlabel():
            ctr[0] += 1
            return hexs('S%d_%d' % (idx, ctr[0]))
        for step in range(rng.randint(14, 24)):
            if findings:
                break
            stats['steps'] += 1
            a = rng.randrange(nproc)
            A = procs[a]
            op = rng.choice(['create', 'create', 'setlabel', 'setapp', 'destroy', 'look', 'private'])
            if op in ('create', 'private'):
                lab, val, app = newlabel(), '%02x' % rng.randrange(256) * rng.choice([16, 24, 32]), ''
                r = A.p.op('create %s 0=u:4 0x100=u:0x1f 1=b:1 2=b:%d 3=x:%s 0x11=x:%s 0x162=b:1 0x103=b:0' % (A.s, 1 if op == 'private' else 0, lab, val))
                trace.append(('P%d ' % a + A.p.trace[-1][0][:120], r))
                if r.get('rv') == '0x0':
                    ghost[lab] = ghost_attrs(lab, val, app, '')
                    A.handles[lab] = r.get('h')
            elif op in ('setlabel', 'setapp', 'destroy') and ghost:
                lab = rng.choice(sorted(ghost))
                if lab not in A.handles:
                    A.look()
                h_ = A.handles.get(lab)
                if h_ is None:
                    bad('process %d cannot find the object %s that another process created' % (a, bytes.fromhex(lab).decode()))
                    break
                if op == 'destroy':
                    r = A.p.op('destroy %s %s' % (A.s, h_))
                    trace.append(('P%d ' % a + A.p.trace[-1][0][:120], r))
                    if r.get('rv') == '0x0':
                        del ghost[lab]
                        A.handles.pop(lab, None)
                        # the other processes' handles for it must have become invalid
                        for b, B in enumerate(procs):
                            if b != a and lab in B.handles:
                                stats['stale_handle_checks'] += 1
                                r2 = B.p.op('getattr %s %s 3:64' % (B.s, B.handles[lab]))
                                trace.append(('P%d ' % b + B.p.trace[-1][0][:120], r2))
                                if r2.get('rv') == '0x0':
                                    bad('process %d still reads the object %s through its old handle after process %d destroyed it' % (b, bytes.fromhex(lab).decode(), a))
                                B.handles.pop(lab, None)
                elif op == 'setlabel':
                    new = newlabel()
                    r = A.p.op('setattr %s %s 3=x:%s' % (A.s, h_, new))
                    trace.append(('P%d ' % a + A.p.trace[-1][0][:120], r))
                    if r.get('rv') == '0x0':
                        g = ghost.pop(lab)
                        g['label'] = new
                        ghost[new] = g
                        for B in procs:
                            if lab in B.handles:
                                B.handles[new] = B.handles.pop(lab)
                else:
                    new = hexs('b%d.%d' % (rng.randrange(999), len(trace)))      # unique: the search by this value must find exactly this object
                    r = A.p.op('setattr %s %s 0x102=x:%s' % (A.s, h_, new))
                    trace.append(('P%d ' % a + A.p.trace[-1][0][:120], r))
                    if r.get('rv') == '0x0':
                        ghost[lab]['oid'] = new
            # another process looks: it must see exactly the committed state
            b = rng.choice([x for x in range(nproc) if x != a])
            B = procs[b]
            if op in ('setlabel', 'setapp') and ghost and trace and trace[-1][1].get('rv') == '0x0' and trace[-1][0].split()[1] == 'setattr':
                # first a search BY the changed attribute (before anything re-reads the object through a handle): the template
                # is matched against what is committed now, not against what this process has cached
                (at, newv) = trace[-1][0].split()[-1].split('=x:')
                for (val, want) in ((newv, 1),) + (((lab, 0),) if op == 'setlabel' else ()):
                    B.p.op('findfinal %s' % B.s)
                    B.p.op('findinit %s %s=x:%s' % (B.s, at, val))
                    fr = B.p.op('find %s 50' % B.s)
                    B.p.op('findfinal %s' % B.s)
                    n_ = len([x for x in fr.get('objs', '').split(',') if x])
                    trace.append(('P%d search %s=%s' % (b, at, val), {'rv': fr.get('rv'), 'n': n_}))
                    stats['template_searches'] = stats.get('template_searches', 0) + 1
                    if n_ != want:
                        bad('process %d searching by attribute %s = %s finds %d object(s) after process %d committed the change (expected %d)' % (b, at, bytes.fromhex(val).decode('latin1'), n_, a, want))
            v = B.look()
            stats['cross_views'] += 1
            trace.append(('P%d look' % b, {'rv': '0x0', 'n': len(v or {})}))
            if v is None:
                bad('process %d cannot search' % b)
                break
            seen = {lab.split('#')[0]: as_ghost(a_) for lab, a_ in v.items()}
            if len(seen) != len(v):
                bad('process %d sees an object twice' % b)
            for lab in set(ghost) | set(seen):
                name = bytes.fromhex(lab).decode('latin1')
                if lab not in seen:
                    bad('process %d does not see the object %s that process %d committed' % (b, name, a))
                elif lab not in ghost:
                    bad('process %d sees an object %s that was destroyed or never committed' % (b, name))
                elif seen[lab] != ghost[lab]:
                    diff = [k for k in ghost[lab] if ghost[lab][k] != seen[lab].get(k)]
                    bad('process %d sees stale or wrong attribute(s) %s of %s after a committed change' % (b, ','.join(diff), name))
                if findings:
                    break
    finally:
        for q in procs:
            q.p.close()
        import shutil
        shutil.rmtree(d, ignore_errors=True)
    return {'i': idx, 'trace': trace, 'findings': findings[:2], 'model_dis': [], 'model_evals': 0, 'stats': stats}


def seq_scan_race(lib, p11drv, seed, idx, shim):
    """file-operation granularity on the READING side: process A's C_FindObjectsInit (which re-lists the token directory) is
    paused before its k-th file-system event - lstat of a directory entry included - while process B destroys a token object
    (its files go away under A's scan); A resumes.  Afterwards nothing is lost for good: B creates another object, A must see
    it (and not the destroyed one) and A's own C_CreateObject of a token object must work"""
    rng = random.Random(seed * 49979693 + idx)
    setup = P11(p11drv, lib, keep=True)
    d = setup.dir
    findings, trace = [], []
    stats = {'case': 'scan_vs_destroy'}

    def bad(m):
        findings.append((m, len(trace)))
    procs = []
    try:
        setup.op('init')
        setup.op('inittoken tfree %s tok0' % SO)
        s0 = setup.op('open t0 rw')['h']
        setup.op('login %s 0 %s' % (s0, SO))
        setup.op('initpin %s %s' % (s0, USER))
        setup.op('logout %s' % s0)
        setup.op('login %s 1 %s' % (s0, USER))
        labs = [hexs('O%d_%d' % (idx, i)) for i in range(4)]
        for l in labs:
            setup.op('create %s 0=u:0 1=b:1 2=b:0 3=x:%s 0x11=x:%s' % (s0, l, l))
        setup.op('fini')
        setup.close()
        A, B = Proc(lib, p11drv, shim, d, True, lstat=True), Proc(lib, p11drv, shim, d, False)
        procs = [A, B]
        if not A.start() or not B.start():
            bad('a process cannot open the shared token')
            return {'i': idx, 'trace': [], 'findings': findings, 'model_dis': [], 'model_evals': 0, 'stats': stats}
        A.look()
        B.look()
        victim = rng.choice(labs)
        k = rng.randint(1, 30)
        stats['pause_point'] = k
        import time, select
        A.arm('pause %d' % k)
        A.p.send('findinit %s' % A.s)
        time.sleep(0.05)
        rb = B.p.op('destroy %s %s' % (B.s, B.handles[victim]))
        trace.append(('B destroy %s' % victim, rb))
        A.arm('off')
        ra = A.p.recv()
        trace.append(('A findinit (paused before event %d)' % k, ra))
        A.p.op('findfinal %s' % A.s)
        if ra.get('rv') in ('DIED', 'HANG'):
            bad('scan_vs_destroy: A did not return from C_FindObjectsInit (%s)' % ra.get('rv'))
        else:
            new = hexs('N%d' % idx)
            rc = B.p.op('create %s 0=u:0 1=b:1 2=b:0 3=x:%s 0x11=x:%s' % (B.s, new, new))
            trace.append(('B create', rc))
            va = A.look()
            seen = set(l.split('#')[0] for l in (va or {}))
            trace.append(('A look', {'rv': '0x0', 'n': len(seen)}))
            if va is None:
                bad('scan_vs_destroy: A can no longer search after B destroyed an object under its directory scan')
            else:
                if rc.get('rv') == '0x0' and new not in seen:
                    bad('scan_vs_destroy: A does not see the object B committed after B had destroyed another one under A\'s directory scan (A stopped re-reading the token)')
                if rb.get('rv') == '0x0' and victim in seen:
                    bad('scan_vs_destroy: A still sees the object B destroyed')
                for l in labs:
                    if l != victim and l not in seen:
                        bad('scan_vs_destroy: A lost the untouched object %s' % bytes.fromhex(l).decode())
            mine = hexs('M%d' % idx)
            r2 = A.p.op('create %s 0=u:0 1=b:1 2=b:0 3=x:%s 0x11=x:%s' % (A.s, mine, mine))
            trace.append(('A create', r2))
            if r2.get('rv') != '0x0':
                bad('scan_vs_destroy: A\'s own C_CreateObject of a token object answers %s afterwards' % r2.get('rv'))
    finally:
        for q in procs:
            q.p.close()
        import shutil
        shutil.rmtree(d, ignore_errors=True)
    return {'i': idx, 'trace': trace, 'findings': findings[:2], 'model_dis': [], 'model_evals': 0, 'stats': stats}


def seq_race(lib, p11drv, seed, idx, shim, codecdrv):
    """file-operation granularity: A's writing call is paused before its k-th file-system event while B runs a full call"""
    rng = random.Random(seed * 32452867 + idx)
    setup = P11(p11drv, lib, keep=True)
    d = setup.dir
    findings, trace = [], []
    stats = {'pause_point': None, 'events': 0, 'case': None}

    def bad(m):
        findings.append((m, len(trace)))
    procs = []
    try:
        setup.op('init')
        setup.op('inittoken tfree %s tok0' % SO)
        s0 = setup.op('open t0 rw')['h']
        setup.op('login %s 0 %s' % (s0, SO))
        setup.op('initpin %s %s' % (s0, USER))
        setup.op('logout %s' % s0)
        setup.op('login %s 1 %s' % (s0, USER))
        X, Y = hexs('X%d' % idx), hexs('Y%d' % idx)
        setup.op('create %s 0=u:4 0x100=u:0x1f 1=b:1 2=b:0 3=x:%s 0x11=x:%s 0x162=b:1 0x103=b:0' % (s0, X, '11' * 16))
        setup.op('create %s 0=u:4 0x100=u:0x1f 1=b:1 2=b:0 3=x:%s 0x11=x:%s 0x162=b:1 0x103=b:0' % (s0, Y, '22' * 16))
        setup.op('fini')
        setup.close()
        A, B = Proc(lib, p11drv, shim, d, True), Proc(lib, p11drv, shim, d, False)
        procs = [A, B]
        if not A.start() or not B.start():
            bad('a process cannot open the shared token')
            return {'i': idx, 'trace': [], 'findings': findings, 'model_dis': [], 'model_evals': 0, 'stats': stats}
        A.look()
        B.look()
        case = rng.choice(['set_vs_set_other', 'set_vs_set_same', 'set_vs_destroy_other', 'create_vs_create', 'set_vs_look', 'destroy_vs_set_same', 'create_vs_look'])
        stats['case'] = case
        newA, newB = hexs('NA%d' % idx), hexs('NB%d' % idx)
        a_line = {'set_vs_set_other': 'setattr %s %s 0x102=x:%s' % (A.s, A.handles[X], hexs('ida')), 'set_vs_set_same': 'setattr %s %s 0x102=x:%s' % (A.s, A.handles[X], hexs('ida')),
                  'set_vs_destroy_other': 'setattr %s %s 0x102=x:%s' % (A.s, A.handles[X], hexs('ida')), 'create_vs_create': 'create %s 0=u:4 0x100=u:0x1f 1=b:1 2=b:0 3=x:%s 0x11=x:%s 0x162=b:1 0x103=b:0' % (A.s, newA, 'aa' * 16),
                  'set_vs_look': 'setattr %s %s 0x102=x:%s' % (A.s, A.handles[X], hexs('ida')), 'destroy_vs_set_same': 'destroy %s %s' % (A.s, A.handles[X]),
                  'create_vs_look': 'create %s 0=u:4 0x100=u:0x1f 1=b:1 2=b:0 3=x:%s 0x11=x:%s 0x162=b:1 0x103=b:0' % (A.s, newA, 'aa' * 16)}[case]
        b_line = {'set_vs_set_other': 'setattr %s %s 3=x:%s' % (B.s, B.handles[Y], hexs('Yb%d' % idx)), 'set_vs_set_same': 'setattr %s %s 3=x:%s' % (B.s, B.handles[X], hexs('Xb%d' % idx)),
                  'set_vs_destroy_other': 'destroy %s %s' % (B.s, B.handles[Y]), 'create_vs_create': 'create %s 0=u:4 0x100=u:0x1f 1=b:1 2=b:0 3=x:%s 0x11=x:%s 0x162=b:1 0x103=b:0' % (B.s, newB, 'bb' * 16),
                  'set_vs_look': None, 'destroy_vs_set_same': 'setattr %s %s 3=x:%s' % (B.s, B.handles[X], hexs('Xb%d' % idx)), 'create_vs_look': None}[case]
        # how many events does A's call have?  (log mode on a scratch copy would disturb the state: take a generous range)
        k = rng.randint(1, {'create': 300, 'setatt': 112, 'destro': 9}[a_line[:6]]) if rng.random() < 0.7 else rng.randint(1, {'create': 40, 'setatt': 14, 'destro': 6}[a_line[:6]])
        stats['pause_point'] = k
        if not b_line and case == 'set_vs_look':
            # a first, complete change that B has not looked at yet: B's next look finds the generation changed and re-reads the
            # object file - which A's second call is then in the middle of rewriting
            A.p.op('setattr %s %s 0x102=x:%s' % (A.s, A.handles[X], hexs('pre')))
        A.arm('pause %d' % k)
        A.p.send(a_line)
        import time
        time.sleep(0.05)
        rb = None
        import select
        if b_line:
            B.p.send(b_line)
            rd, _, _ = select.select([B.p.p.stdout], [], [], 0.25)
            if rd:
                rb = B.p.recv()          # B's call went through while A was paused
                stats['b_overtook'] = 1
            else:
                stats['b_waited_for_lock'] = 1
        vmid = 'none'
        if not b_line:
            # B reads everything while A is stopped in the middle of its write: B either waits for A's lock or sees a
            # complete state (the old or the new one) - never a half-written object
            import threading
            box = {}
            th = threading.Thread(target=lambda: box.update(v=B.look()))
            th.start()
            th.join(0.4)
            if th.is_alive():
                stats['b_waited_for_lock'] = 1
            else:
                stats['b_overtook'] = 1
            A.arm('off')
            th.join(30)
            vmid = box.get('v')
        A.arm('off')
        ra = A.p.recv()
        if vmid != 'none':
            gm = {l.split('#')[0]: as_ghost(a_) for l, a_ in (vmid or {}).items()}
            trace.append(('B look (while A is paused)', {'rv': '0x0', 'n': len(gm)}))
            if vmid is None:
                bad('%s: B cannot search while A is in the middle of its call' % case)
            else:
                for lab in (X, Y):
                    if lab not in gm:
                        bad('%s: while A was in the middle of its write, B did not see the committed object %s (a half-written file was read without waiting for the writer\'s lock)' % (case, bytes.fromhex(lab).decode()))
                    elif gm[lab].get('value') in (None, '') or (lab == X and case == 'set_vs_look' and gm[lab].get('oid') not in (hexs('ida'), hexs('pre'))) :
                        bad('%s: while A was in the middle of its second write, B read a partial or stale object %s (CKA_ID %s; A had committed %s before and is writing %s): %s' % (case, bytes.fromhex(lab).decode(), gm[lab].get('oid'), hexs('pre'), hexs('ida'), gm[lab]))
        if b_line and rb is None:
            rb = B.p.recv()              # B was waiting for A's lock
        if b_line:
            trace.append(('B ' + b_line[:100], rb))
        trace.append(('A ' + a_line[:100] + ' (paused before event %d)' % k, ra))
        if ra.get('rv') in ('DIED', 'HANG') or (rb and rb.get('rv') in ('DIED', 'HANG')):
            bad('%s: a call did not return (%s / %s): deadlock or crash between the two processes' % (case, ra.get('rv'), rb and rb.get('rv')))
        else:
            va, vb = A.look(), B.look()
            ga = {l.split('#')[0]: as_ghost(a_) for l, a_ in (va or {}).items()}
            gb = {l.split('#')[0]: as_ghost(a_) for l, a_ in (vb or {}).items()}
            if ga != gb:
                bad('%s: after both calls returned the two processes see different token objects' % case)
            oka, okb = ra.get('rv') == '0x0', (rb or {}).get('rv') == '0x0'
            labels = set(gb)
            if len(gb) != len(vb or {}):
                bad('%s: an object appears twice' % case)
            # committed effects must all be there (no lost update), nothing else
            if case in ('set_vs_set_other', 'set_vs_set_same'):
                xl = X if case == 'set_vs_set_other' or not okb else hexs('Xb%d' % idx)
                if oka and gb.get(xl, {}).get('oid') != hexs('ida'):
                    bad('%s: A\'s committed CKA_ID change is lost (B wrote in between)' % case)
                if okb and (hexs('Yb%d' % idx) if case == 'set_vs_set_other' else hexs('Xb%d' % idx)) not in labels:
                    bad('%s: B\'s committed label change is lost (A\'s rewrite of the object put the old label back)' % case)
            elif case == 'create_vs_create':
                if oka and newA not in labels:
                    bad('create_vs_create: A\'s committed object is missing')
                if okb and newB not in labels:
                    bad('create_vs_create: B\'s committed object is missing')
            elif case == 'set_vs_destroy_other':
                if okb and Y in labels:
                    bad('set_vs_destroy_other: the object B destroyed is back')
                if oka and gb.get(X, {}).get('oid') != hexs('ida'):
                    bad('set_vs_destroy_other: A\'s committed change is lost')
            elif case == 'destroy_vs_set_same':
                if oka and (X in labels or hexs('Xb%d' % idx) in labels):
                    bad('destroy_vs_set_same: the object A destroyed is still there (resurrected by B\'s rewrite)')
            # every object file decodes
            cd = kstore.Codec(codecdrv)
            try:
                for root, _, files in os.walk(os.path.join(d, 'tokens')):
                    for f in files:
                        if f.endswith('.object'):
                            g, attrs = kstore.parse_dec(cd.ask('dec', open(os.path.join(root, f), 'rb').read()))
                            if attrs is None and g == 'I':
                                bad('%s: the object file %s is corrupt after the two calls' % (case, f[-14:]))
            finally:
                cd.close()
    finally:
        for q in procs:
            q.p.close()
        import shutil
        shutil.rmtree(d, ignore_errors=True)
    return {'i': idx, 'trace': trace, 'findings': findings[:2], 'model_dis': [], 'model_evals': 0, 'stats': stats}
