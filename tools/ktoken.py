#!/usr/bin/env python3
"""K-token (C14): histories of C_InitToken (fresh / re-init, right / wrong SO PIN, with / without sessions), object and
PIN operations on up to three tokens, interleaved with library restarts; the property's clauses are read directly off
the real trace:
  * fresh init: the free slot becomes the labelled token, a new free slot appears, SO PIN logs in, no user PIN
  * re-init: CKR_OK iff right SO PIN and no session on that token; then no objects, no user PIN, same SO PIN
  * isolation: a call addressed to token j (through its slot, its sessions, the handles they returned) leaves every
    other token's label, serial, flags, login state, object views and PIN behaviour as they were
  * restart: every token is found again, under slot (last 8 hex digits of the serial) & 0x7fffffff, same label / serial
    / PIN flags / objects"""
import random
from p11i import P11
import kstore

PIN_FLAGS = 0x8 | 0x400          # CKF_USER_PIN_INITIALIZED | CKF_TOKEN_INITIALIZED


def hexs(s):
    return s.encode().hex()


def seq_tokens(lib, p11drv, seed, idx):
    rng = random.Random(seed * 67867967 + idx)
    p = P11(p11drv, lib)
    findings = []
    stats = {'inittoken_fresh': 0, 'reinit_ok': 0, 'reinit_refused': 0, 'restarts': 0, 'isolation_checks': 0}
    so, user, sess, serial = {}, {}, {}, {}       # per token index
    labctr = [0]

    def bad(msg):
        findings.append((msg, len(p.trace) - 1))

    def newpin(alpha):
        return hexs(''.join(rng.choice(alpha) for _ in range(rng.randint(4, 8))))

    def tinfo(k):
        r = p.op('tokeninfo t%d' % k)
        if r.get('rv') != '0x0':
            return None
        return {'flags': int(r.get('flags', '0'), 16), 'label': r.get('label'), 'serial': r.get('serial'), 'slotid': int(r.get('slotid', '-1'))}

    def snapshot(k):
        """everything observable of token k without changing it: token info (label, serial, PIN / login-independent flags),
        state of its open sessions, objects seen by its first session"""
        ti = tinfo(k)
        st = tuple(sorted((s_, p.op('sinfo %s' % s_).get('state')) for s_ in sess.get(k, [])))
        objs = None
        if sess.get(k):
            objs = kstore.strip(kstore.view(p, sess[k][0]))
        return (None if ti is None else (ti['label'], ti['serial'], ti['flags'] & ~0x0), st, objs)

    try:
        p.op('init')
        ntok = 0
        for step in range(rng.randint(25, 40)):
            if findings:
                break
            toks = list(range(ntok))
            choice = rng.choice(['fresh', 'reinit', 'reinit', 'open', 'open', 'close', 'closeall', 'login', 'logout', 'create', 'create', 'destroy', 'initpin', 'setpin', 'restart'])
            if ntok == 0 or (choice == 'fresh' and ntok < 3):
                choice = 'fresh'
            elif choice == 'fresh':
                choice = 'reinit'
            j = rng.choice(toks) if toks else 0
            others = [k for k in toks if k != j] if choice != 'fresh' else toks
            before = {k: snapshot(k) for k in others} if choice != 'restart' else {}
            if choice == 'fresh':
                pin = newpin('0123456789')
                r0 = p.op('slots')
                n0 = int(r0.get('n', '0'))
                r = p.op('inittoken tfree %s tok%d' % (pin, ntok))
                if r.get('rv') == '0x0':
                    k = ntok
                    ntok += 1
                    so[k], user[k], sess[k] = pin, None, []
                    stats['inittoken_fresh'] += 1
                    ti = tinfo(k)
                    serial[k] = ti['serial'] if ti else None
                    n1 = int(p.op('slots').get('n', '0'))
                    if n1 != n0 + 1:
                        bad('after C_InitToken on the free slot the slot count went from %d to %d (a new free slot must appear)' % (n0, n1))
                    if ti is None or bytes.fromhex(ti['label']).decode().strip() != 'tok%d' % k:
                        bad('the new token does not carry the given label')
                    elif ti['flags'] & 0x8:
                        bad('a freshly initialised token reports an initialised user PIN')
                    s_ = p.op('open t%d rw' % k).get('h')
                    if s_:
                        if p.rv('login %s 0 %s' % (s_, pin)) != 0:
                            bad('the SO PIN given to C_InitToken does not log in')
                        if p.rv('logout %s' % s_) == 0 and p.rv('login %s 1 %s' % (s_, pin)) == 0:
                            bad('a user can log in to a freshly initialised token')
                        if rng.random() < 0.6:
                            # most tokens get a user PIN at once (so that a later re-initialisation has one to remove)
                            up = newpin('abcdef')
                            p.op('login %s 0 %s' % (s_, pin))
                            if p.rv('initpin %s %s' % (s_, up)) == 0:
                                user[k] = up
                                ti2 = tinfo(k)
                                if ti2 and not ti2['flags'] & 0x8:
                                    bad('after C_InitPIN the token does not report an initialised user PIN')
                            p.op('logout %s' % s_)
                        p.op('close %s' % s_)
                else:
                    bad('C_InitToken on the free slot failed: %s' % r.get('rv'))
            elif choice == 'reinit':
                right = rng.random() < 0.6
                pin = so[j] if right else newpin('0123456789')
                if pin == so[j]:
                    right = True
                had_sessions = bool(sess[j])
                r = p.op('inittoken t%d %s tok%d' % (j, pin, j))
                ok = r.get('rv') == '0x0'
                if ok and (had_sessions or not right):
                    bad('C_InitToken on an initialised token succeeded %s' % ('with a session open' if had_sessions else 'with a wrong SO PIN'))
                if not ok and right and not had_sessions:
                    bad('C_InitToken with the right SO PIN and no session was refused: %s' % r.get('rv'))
                if ok:
                    stats['reinit_ok'] += 1
                    olduser = user[j]
                    user[j] = None
                    s_ = p.op('open t%d rw' % j).get('h')
                    if s_:
                        if p.rv('login %s 0 %s' % (s_, so[j])) != 0:
                            bad('after re-initialisation the SO PIN no longer logs in')
                        p.op('logout %s' % s_)
                        for cand in ([olduser] if olduser else []) + [so[j]]:
                            if p.rv('login %s 1 %s' % (s_, cand)) == 0:
                                bad('after re-initialisation %s still logs in as user' % ('the old user PIN' if cand == olduser else 'a PIN'))
                                p.op('logout %s' % s_)
                        p.op('login %s 0 %s' % (s_, so[j]))
                        v = kstore.view(p, s_)
                        if v:
                            bad('after re-initialisation the token still has %d object(s)' % len(v))
                        p.op('close %s' % s_)
                    ti = tinfo(j)
                    if ti and ti['flags'] & 0x8:
                        bad('after re-initialisation the token still reports an initialised user PIN')
                else:
                    stats['reinit_refused'] += 1
            elif choice == 'open':
                first = not sess[j]
                s_ = p.op('open t%d %s' % (j, rng.choice(['rw', 'rw', 'ro']))).get('h')
                if s_:
                    sess[j].append(s_)
                    if first and p.op('sinfo %s' % s_).get('state') not in ('0', '2'):
                        bad('the first session opened on tok%d after all its sessions were closed is not a public session' % j)
            elif choice == 'close' and sess[j]:
                s_ = rng.choice(sess[j])
                if p.rv('close %s' % s_) == 0:
                    sess[j].remove(s_)
            elif choice == 'closeall':
                if p.rv('closeall t%d' % j) == 0:
                    sess[j] = []
            elif choice == 'login' and sess[j]:
                which = rng.choice(['so', 'user'])
                pin = so[j] if which == 'so' else (user[j] or newpin('abcdef'))
                p.op('login %s %d %s' % (rng.choice(sess[j]), 0 if which == 'so' else 1, pin))
            elif choice == 'logout' and sess[j]:
                p.op('logout %s' % rng.choice(sess[j]))
            elif choice == 'create' and sess[j]:
                labctr[0] += 1
                p.op('create %s 0=u:0 1=b:%d 2=b:%d 3=x:%s 0x11=x:%s' % (rng.choice(sess[j]), rng.randint(0, 1), rng.randint(0, 1), hexs('T%d_%d' % (j, labctr[0])), '%02x' % rng.randrange(256) * rng.randint(0, 20)))
            elif choice == 'destroy' and sess[j]:
                v = kstore.view(p, sess[j][0]) or {}
                if v:
                    p.op('destroy %s %s' % (sess[j][0], rng.choice(sorted(v.values()))[0]))
            elif choice == 'initpin' and sess[j]:
                pin = newpin('abcdef')
                if p.rv('initpin %s %s' % (rng.choice(sess[j]), pin)) == 0:
                    user[j] = pin
            elif choice == 'setpin' and sess[j]:
                s_ = rng.choice(sess[j])
                st = p.op('sinfo %s' % s_).get('state')
                new = newpin('abcdef0123')
                if st == '4':
                    if p.rv('setpin %s %s %s' % (s_, so[j], new)) == 0:
                        so[j] = new
                elif user[j]:
                    if p.rv('setpin %s %s %s' % (s_, user[j], new)) == 0:
                        user[j] = new
            elif choice == 'restart':
                infos = {k: tinfo(k) for k in toks}
                objs = {}
                for k in toks:
                    # what a user (or, without user PIN, a public session) sees before the restart
                    s_ = p.op('open t%d rw' % k).get('h')
                    if s_:
                        p.op('logout %s' % s_)
                        if user[k]:
                            p.op('login %s 1 %s' % (s_, user[k]))
                        vv = kstore.strip(kstore.view(p, s_)) or {}
                        objs[k] = {l: a for l, a in vv.items() if any(t == 1 and x == '01' for (t, l_, x) in a)}
                        p.op('logout %s' % s_)
                how = rng.choice(['fini', 'newproc'])
                if how == 'fini':
                    p.op('fini')
                else:
                    p.op('newproc')
                p.op('init')
                stats['restarts'] += 1
                for k in toks:
                    sess[k] = []
                    ti = tinfo(k)
                    if ti is None:
                        bad('after %s the token tok%d is not found' % (how, k))
                        continue
                    if infos[k] and (ti['label'], ti['serial']) != (infos[k]['label'], infos[k]['serial']):
                        bad('after %s token tok%d has another label / serial' % (how, k))
                    if infos[k] and (ti['flags'] & PIN_FLAGS) != (infos[k]['flags'] & PIN_FLAGS):
                        bad('after %s token tok%d reports other initialisation flags (0x%x, before 0x%x)' % (how, k, ti['flags'], infos[k]['flags']))
                    ser = bytes.fromhex(ti['serial']).decode('latin1').strip()
                    want = int(ser[-8:], 16) & 0x7fffffff if ser else None
                    if want is not None and ti['slotid'] != want:
                        bad('after %s token tok%d sits in slot %d, its serial %s determines slot %d' % (how, k, ti['slotid'], ser, want))
                    s_ = p.op('open t%d rw' % k).get('h')
                    if s_:
                        if p.rv('login %s 0 %s' % (s_, so[k])) != 0:
                            bad('after %s the SO PIN of tok%d no longer logs in' % (how, k))
                        p.op('logout %s' % s_)
                        if user[k] and p.rv('login %s 1 %s' % (s_, user[k])) != 0:
                            bad('after %s the user PIN of tok%d no longer logs in' % (how, k))
                        vv = kstore.strip(kstore.view(p, s_)) or {}
                        d = kstore.diff_views(objs.get(k, {}), vv)
                        if d and k in objs:
                            bad('after %s the objects of tok%d differ: %s' % (how, k, d))
                        p.op('close %s' % s_)
            # isolation: nothing addressed to j changed another token
            for k, b4 in before.items():
                stats['isolation_checks'] += 1
                now = snapshot(k)
                if now != b4:
                    what = 'token info' if now[0] != b4[0] else 'session states' if now[1] != b4[1] else 'objects'
                    bad('a %s addressed to tok%d changed the %s of tok%d' % (choice, j, what, k))
                    break
        if not findings:
            # last: one more token whose label uses all 32 characters of the field (no blank padding at all)
            lab32 = 'full' + ''.join(rng.choice('ABCDEFGHJKLMNPQRSTUVWXYZ23456789') for _ in range(28))
            r = p.op('inittoken tfree %s %s' % (newpin('0123456789'), lab32))
            if r.get('rv') == '0x0':
                toks = [t.split('/')[0] for t in p.op('slots').get('toks', '').split(',')]
                if lab32 not in toks:
                    bad('a token initialised with the 32-character label %s reports %s' % (lab32, [t for t in toks if t.startswith('full')] or 'no such label'))
    finally:
        p.close()
    return {'i': idx, 'trace': [(l[:160], r) for l, r in p.trace], 'findings': findings[:3], 'model_dis': [], 'model_evals': 0, 'stats': stats}


def seq_failed_state(lib, p11drv, seed, idx):
    """C03, last clause, without a model: a call that FAILS leaves sessions and login state as they were.  Random histories over
    one token; every failing call is followed by a read of the state of every open session (C_GetSessionInfo), by a probe
    that tells the token's login state when no session is open (a read-only session can be opened iff the SO is not logged
    in; its state tells whether the user is), and the answers must equal those before the call"""
    import random
    from p11i import P11
    rng = random.Random(seed * 67867967 + idx)
    p = P11(p11drv, lib)
    findings = []
    SO, USER = '31323334', '35363738'

    def bad(m):
        findings.append((m, len(p.trace) - 1))
    try:
        p.op('init')
        p.op('inittoken tfree %s tok0' % SO)
        s = p.op('open t0 rw').get('h')
        p.op('login %s 0 %s' % (s, SO))
        p.op('initpin %s %s' % (s, USER))
        p.op('logout %s' % s)
        p.op('close %s' % s)
        sess = []

        def state():
            st = tuple((x, p.op('sinfo %s' % x).get('state')) for x in sess)
            probe = None
            if not sess:
                r = p.op('open t0 ro')
                probe = (r.get('rv'), None)
                if r.get('h'):
                    probe = (r.get('rv'), p.op('sinfo %s' % r['h']).get('state'))
                    p.op('close %s' % r['h'])
            return (st, probe)
        for _ in range(rng.randint(10, 18)):
            if findings:
                break
            c = rng.random()
            if c < 0.3 and len(sess) < 3:
                r = p.op('open t0 %s' % rng.choice(['rw', 'rw', 'ro']))
                if r.get('h'):
                    sess.append(r['h'])
                continue
            if c < 0.4 and sess:
                x = sess.pop(rng.randrange(len(sess)))
                p.op('close %s' % x)
                continue
            if c < 0.55 and sess:
                p.op('login %s %d %s' % (rng.choice(sess), *rng.choice([(1, USER), (0, SO)])))
                continue
            if c < 0.62 and sess:
                p.op('logout %s' % rng.choice(sess))
                continue
            # a call meant to fail
            before = state()
            x = rng.choice(sess) if sess else 'h99'
            line = rng.choice([
                'inittoken t0 %s nulllabel' % SO, 'inittoken t0 %s nulllabel' % SO, 'inittoken t0 %s tok0' % '39393939', 'inittoken t0 null tok0',
                'login %s 1 %s' % (x, '30303030'), 'login %s 0 %s' % (x, '30303030'), 'login %s 7 %s' % (x, USER), 'login %s 1 null' % x,
                'initpin %s null' % x, 'initpin %s 3131' % x, 'setpin %s 30303030 41414141' % x, 'setpin %s %s 4141' % (x, USER), 'setpin %s null %s' % (x, USER),
                'open t0 2', 'open #999 rw', 'close h98', 'logout h97'])
            r = p.op(line)
            if r.get('rv') in ('0x0', 'DIED', 'HANG', None):
                if line.startswith('inittoken') and r.get('rv') == '0x0':
                    sess = []          # it was a valid re-initialisation after all (no session was open)
                    p.op('open t0 rw'); p.op('closeall t0')
                    s2 = p.op('open t0 rw').get('h')
                    if s2:
                        p.op('login %s 0 %s' % (s2, SO)); p.op('initpin %s %s' % (s2, USER)); p.op('logout %s' % s2); p.op('close %s' % s2)
                continue
            after = state()
            if after != before:
                bad('the failing call "%s" (%s) changed sessions or login state: %s -> %s' % (line, r.get('rv'), before, after))
    finally:
        p.close()
    return {'i': idx, 'trace': p.trace, 'findings': findings, 'model_dis': [], 'model_evals': 0, 'stats': {}}
