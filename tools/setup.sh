#!/bin/bash
# MANIFEST.setup_cmd: build everything the checks need from files on disk only (offline).
set -e
cd "$(dirname "$0")/.."
python3 - <<'PY'
import sys, os
sys.path.insert(0, 'tools')
import vlib
b = vlib.build_repo('ossl-file')
vlib.build_harness(b)
rep = vlib.translate(b)
for k, v in rep.items():
    print(k, v[:200])
ok, log = vlib.coq_make(None, timeout=3000)
if not ok:
    # a proof that no longer checks is for the checks to report (each rebuilds and names the broken obligation); setup only
    # has to leave the tools built.  `make -k` has compiled everything that still compiles (models, extraction).
    sys.stderr.write(log[-4000:])
    print('setup: WARNING: not every Coq file compiles on this tree; the checks will report the broken obligations')
for (drv, mdl) in (('coredrv', 'core_model'), ('opdrv', 'op_model'), ('paddrv', 'pad_model'), ('codecdrv', 'codec_model')):
    try:
        vlib.build_ocaml(drv, mdl, drv + '.ml')
    except Exception as e:                      # the check that needs the driver rebuilds it and reports
        print('setup: WARNING: %s not built: %s' % (drv, e))
# the other configurations (sanitizer build, SQLite store, Botan) are built here once; the checks rebuild them
# incrementally from /repo's working tree on every run
for v in ('asan', 'ossl-db', 'botan-file', 'botan-db'):
    vlib.build_repo(v)
bad = vlib.forbidden_vernacular()
if bad:
    print('FORBIDDEN:', bad)
    sys.exit(1)
print('setup ok')
PY
