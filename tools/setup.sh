#!/bin/bash
# MANIFEST.setup_cmd: build everything the checks need from files on disk only (offline).
set -e
cd "$(dirname "$0")/.."
python3 - <<'PY'
import sys, os
sys.path.insert(0, 'tools')
import vlib
b = vlib.build_repo('ossl-file')
vlib.build_harness(b)
rep = vlib.translate(b)
for k, v in rep.items():
    print(k, v[:200])
ok, log = vlib.coq_make(None, timeout=3000)
if not ok:
    sys.stderr.write(log[-4000:])
    sys.exit(1)
vlib.build_ocaml('coredrv', 'core_model', 'coredrv.ml')
vlib.build_ocaml('opdrv', 'op_model', 'opdrv.ml')
vlib.build_ocaml('paddrv', 'pad_model', 'paddrv.ml')
vlib.build_ocaml('codecdrv', 'codec_model', 'codecdrv.ml')
# the other configurations (sanitizer build, SQLite store, Botan) are built here once; the checks rebuild them
# incrementally from /repo's working tree on every run
for v in ('asan', 'ossl-db', 'botan-file', 'botan-db'):
    vlib.build_repo(v)
bad = vlib.forbidden_vernacular()
if bad:
    print('FORBIDDEN:', bad)
    sys.exit(1)
print('setup ok')
PY
