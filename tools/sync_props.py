#!/usr/bin/env python3
"""Development helper (not used by the checks): rewrite the statement of every theorem in coq/props/*.v whose proof is
`exact <lemma>.` with <lemma> stated in one of the given source files, from that lemma's current statement
(binders before the colon become a leading `forall`).  usage: sync_props.py <source .v> ..."""
import re, sys, glob, os
ROOT = os.path.join(os.path.dirname(os.path.abspath(__file__)), '..', 'coq')
stm = {}
for f in sys.argv[1:]:
    src = open(os.path.join(ROOT, f)).read()
    for m in re.finditer(r'(?:Theorem|Lemma) (\w+)\b(.*?)\nProof\.', src, re.S):
        st = m.group(2)
        mm = re.match(r'\s*((?:\((?:[^()]|\([^()]*\))*\)\s*)+):(.*)', st, re.S)
        if mm:
            st = ' : forall %s,%s' % (mm.group(1).strip(), mm.group(2))
        stm[m.group(1)] = st
n = 0
for p in sorted(glob.glob(os.path.join(ROOT, 'props', 'Properties_C*.v'))):
    s = open(p).read()
    def fix(m):
        global n
        lem = m.group(3).split('.')[-1]
        if lem in stm and m.group(2) != stm[lem]:
            n += 1
            return 'Theorem %s%s\nProof. exact %s. Qed.' % (m.group(1), stm[lem], m.group(3))
        return m.group(0)
    s2 = re.sub(r'Theorem (C\d\d_\w+)\b(.*?)\nProof\. exact ([\w.]+)\. Qed\.', fix, s, flags=re.S)
    if s2 != s:
        open(p, 'w').write(s2)
print('updated %d statements' % n)
