#!/usr/bin/env python3
"""K-api: the extracted P11 core model (coq/P11/Core.v via ocaml/coredrv) against the real library
(harness/p11drv) on the same operation sequences.

An op is a text line in p11drv syntax (handles by name h<N>, tokens by name t<k>/tfree).  The model
driver speaks a numeric protocol; this module does the naming on the model side exactly as p11drv
does it on the implementation side (first observation; handles first seen in one C_FindObjects
batch are bound in CKA_LABEL order)."""
import os, subprocess, random, json
import vlib

CKR = {'OK': 0, 'ARGUMENTS_BAD': 7, 'SESSION_HANDLE_INVALID': 0xB3, 'OBJECT_HANDLE_INVALID': 0x82, 'USER_NOT_LOGGED_IN': 0x101,
       'SESSION_READ_ONLY': 0xB5, 'GENERAL_ERROR': 5, 'OPERATION_ACTIVE': 0x90, 'OPERATION_NOT_INITIALIZED': 0x91,
       'KEY_HANDLE_INVALID': 0x60, 'BUFFER_TOO_SMALL': 0x150, 'ATTRIBUTE_SENSITIVE': 0x11, 'ATTRIBUTE_TYPE_INVALID': 0x12,
       'PIN_INCORRECT': 0xA0, 'CRYPTOKI_NOT_INITIALIZED': 0x190}
UNAVAIL = (1 << 64) - 1


def le8(n):
    return ''.join('%02x' % ((n >> (8 * i)) & 0xff) for i in range(8))


# ------------------------------------------------------------------------------------------- real side
def parse_real_line(line):
    """'<lineno> <op> rv=0x.. k=v ...' -> dict"""
    w = line.split()
    d = {'lineno': int(w[0]), 'op': w[1], 'line': line}
    attrs = []
    for t in w[2:]:
        if '=' in t and not t.startswith('0x'):
            k, v = t.split('=', 1)
            d[k] = v
        elif t.startswith('0x') and t.count(':') >= 2:
            a, l, x = t.split(':', 2)
            attrs.append((int(a, 16), l, x))
    if attrs:
        d['attrs'] = attrs
    return d


def run_real(p11drv, lib, conf, ops, timeout=120, env_extra=None, preload=None):
    """ops: list of text lines.  Returns list of dicts (one per op line, in order) plus EXIT records."""
    env = {'SOFTHSM2_CONF': conf}
    if env_extra:
        env.update(env_extra)
    if preload:
        env['LD_PRELOAD'] = preload
    text = '\n'.join(ops) + '\n'
    rc, out, err = vlib.sh([p11drv, lib, '-'], timeout=timeout, env=env, input=text)
    res = []
    for l in out.splitlines():
        if not l.strip():
            continue
        try:
            res.append(parse_real_line(l))
        except Exception:
            res.append({'op': '?', 'line': l})
    return res, err


# ------------------------------------------------------------------------------------------- model side
class Model:
    """interactive model runner with p11drv-compatible naming"""

    def __init__(self, coredrv):
        self.p = subprocess.Popen([coredrv], stdin=subprocess.PIPE, stdout=subprocess.PIPE, text=True, bufsize=1)
        self.names = []      # index -> raw model handle
        self.idx = {}        # raw -> index
        self.prios = None    # registration-order oracle: one list of label hex strings per findinit of the sequence
        self.nfindinit = 0
        self.epoch = 0

    def close(self):
        try:
            self.p.stdin.close()
            self.p.wait(timeout=5)
        except Exception:
            self.p.kill()

    def ask(self, line):
        self.p.stdin.write(line + '\n')
        self.p.stdin.flush()
        return self.p.stdout.readline().strip()

    def reset(self):
        self.ask('reset')
        self.names, self.idx = [], {}

    def bind(self, raw):
        if raw in self.idx:
            return 'h%d' % self.idx[raw]
        self.idx[raw] = len(self.names)
        self.names.append(raw)
        return 'h%d' % self.idx[raw]

    def harg(self, s):
        if not s:
            return 0
        if s[0] == '#':
            return int(s[1:], 0)
        if s[0] == 'h':
            n = int(s[1:])
            if n < len(self.names):
                return self.names[n]
            return 0xFFFFFF00 + n
        return int(s, 0)

    @staticmethod
    def tref(s):
        if s == 'tfree':
            return 'free'
        if s[0] == '#':
            return 'raw%d' % int(s[1:], 0)
        return 't' + s[1:]

    @staticmethod
    def item(it):
        """template item '<type>=<k>:<payload>' -> (type, val, len) in model syntax or None if unsupported"""
        t, v = it.split('=', 1)
        k, p = v[0], v[2:]
        ty = int(t, 0)
        if k == 'u':
            return (ty, le8(int(p, 0)), 8)
        if k == 'b':
            return (ty, '%02x' % int(p, 0), 1)
        if k == 'x':
            n = len(p) // 2
            return (ty, p.lower() if n else '.', n)
        if k == 'n':
            return (ty, '-', 0)
        if k == 'N':
            return (ty, '-', int(p, 0))
        return None

    def tmpl(self, items):
        out = []
        for it in items:
            if '=' not in it:
                continue
            x = self.item(it)
            if x is None:
                return None
            out.append(x)
        return '%d' % len(out) + ''.join(' %d %s %d' % x for x in out)

    @staticmethod
    def pin(s):
        if s == 'null':
            return '-'
        return s.lower() if s and s != '.' else '.'

    def step(self, line):
        """run one op line; returns a result dict comparable with the real side, or {'unmodelled': True}"""
        w = line.split()
        op = w[0]
        m = None
        fi = self.nfindinit
        if op == 'findinit':
            self.nfindinit += 1
        if op in ('init', 'fini', 'newproc'):
            if op == 'init' and len(w) > 1:
                pass      # locking arguments do not matter to the sequential model
            m = op
        elif op == 'inittoken':
            lab = w[3] if len(w) > 3 else ''
            if not (lab.startswith('tok') and lab[3:].isdigit()):
                return {'unmodelled': True}
            m = 'inittoken %s %s %s' % (self.tref(w[1]), self.pin(w[2]), lab[3:])
        elif op == 'open':
            fl = {'ro': 4, 'rw': 6}.get(w[2])
            if fl is None:
                fl = int(w[2], 0)
            m = 'open %s %d' % (self.tref(w[1]), fl)
        elif op == 'close':
            m = 'close %d' % self.harg(w[1])
        elif op == 'closeall':
            m = 'closeall %s' % self.tref(w[1])
        elif op == 'sinfo':
            m = 'sinfo %d' % self.harg(w[1])
        elif op == 'login':
            m = 'login %d %d %s' % (self.harg(w[1]), int(w[2], 0), self.pin(w[3]))
        elif op == 'logout':
            m = 'logout %d' % self.harg(w[1])
        elif op == 'initpin':
            m = 'initpin %d %s' % (self.harg(w[1]), self.pin(w[2]))
        elif op == 'setpin':
            m = 'setpin %d %s %s' % (self.harg(w[1]), self.pin(w[2]), self.pin(w[3]))
        elif op == 'create':
            t = self.tmpl(w[2:])
            if t is None:
                return {'unmodelled': True}
            m = 'create %d %s' % (self.harg(w[1]), t)
        elif op == 'copy':
            t = self.tmpl(w[3:])
            if t is None:
                return {'unmodelled': True}
            m = 'copy %d %d %s' % (self.harg(w[1]), self.harg(w[2]), t)
        elif op == 'destroy':
            m = 'destroy %d %d' % (self.harg(w[1]), self.harg(w[2]))
        elif op == 'objsize':
            m = 'objsize %d %d' % (self.harg(w[1]), self.harg(w[2]))
        elif op == 'getattr':
            q = []
            for it in w[3:]:
                parts = it.split(':')
                if parts[1] == 'null':
                    if len(parts) > 2:
                        return {'unmodelled': True}
                    q.append((int(parts[0], 0), '-'))
                else:
                    q.append((int(parts[0], 0), '%d' % int(parts[1], 0)))
            m = 'getattr %d %d %d' % (self.harg(w[1]), self.harg(w[2]), len(q)) + ''.join(' %d %s' % x for x in q)
        elif op == 'setattr':
            t = self.tmpl(w[3:])
            if t is None:
                return {'unmodelled': True}
            m = 'setattr %d %d %s' % (self.harg(w[1]), self.harg(w[2]), t)
        elif op == 'findinit':
            if len(w) > 2 and w[2] == 'nulltmpl':
                return {'unmodelled': True}
            t = self.tmpl(w[2:])
            if t is None:
                return {'unmodelled': True}
            m = 'findinit %d %s' % (self.harg(w[1]), t)
            if self.prios is not None and fi < len(self.prios):
                pr = self.prios[fi]
                m += ' %d' % len(pr) + ''.join(' ' + (x if x else '.') for x in pr)
        elif op == 'find':
            m = 'find %d %d' % (self.harg(w[1]), int(w[2], 0))
        elif op == 'findseq':
            hs, ns = [], []
            for z in w[2:]:
                r = self.ask('find %d %d' % (self.harg(w[1]), int(z, 0))).split()
                if not r or r[0] == 'unmodelled':
                    return {'unmodelled': True}
                if r[0] == 'rv':
                    return {'rv': int(r[1])}
                got = [int(x) for x in r[2:]]
                ns.append(len(got))
                hs += got
            unk = []
            for h in hs:
                if h not in self.idx:
                    lab = self.ask('label %d' % h).split()
                    l = lab[1] if len(lab) > 1 else '-'
                    unk.append((bytes.fromhex('' if l in ('-', '.') else l), h))
            unk = sorted(set(unk))
            for (_, h) in unk:
                self.bind(h)
            return {'rv': 0, 'n': len(hs), 'ns': ns, 'objs': sorted(self.idx[h] for h in hs)}
        elif op == 'findfinal':
            m = 'findfinal %d' % self.harg(w[1])
        elif op in ('encinit', 'decinit', 'signinit', 'verifyinit'):
            kind = {'encinit': 0, 'decinit': 1, 'signinit': 2, 'verifyinit': 3}[op]
            m = 'useinit %d %d %d' % (kind, self.harg(w[1]), self.harg(w[3]))
        else:
            return {'unmodelled': True}
        r = self.ask(m).split()
        if not r or r[0] == 'unmodelled':
            return {'unmodelled': True}
        if op == 'newproc' or (op == 'fini' and r[0] == 'rv' and r[1] == '0'):
            self.names, self.idx = [], {}
            self.epoch += 1
        if r[0] == 'noslot':
            return {'rv': 'noslot'}
        if r[0] == 'rv':
            return {'rv': int(r[1])}
        if r[0] == 'handle':
            return {'rv': 0, 'h': self.bind(int(r[1])), 'mraw': int(r[1])}
        if r[0] == 'info':
            return {'rv': 0, 'state': int(r[1]), 'flags': int(r[2]), 'tok': 'tok%d' % int(r[3])}
        if r[0] == 'attrs':
            n = int(r[2])
            ents = []
            for i in range(n):
                ty, ln, data = r[3 + 3 * i], r[4 + 3 * i], r[5 + 3 * i]
                ents.append((int(ty), None if ln == '-' else int(ln), None if data == '-' else ('' if data == '.' else data)))
            return {'rv': int(r[1]), 'attrs': ents}
        if r[0] == 'found':
            hs = [int(x) for x in r[2:]]
            unk = []
            for h in hs:
                if h not in self.idx:
                    lab = self.ask('label %d' % h).split()
                    l = lab[1] if len(lab) > 1 else '-'
                    unk.append((bytes.fromhex('' if l in ('-', '.') else l), h))
            unk.sort()
            for (_, h) in unk:
                self.bind(h)
            return {'rv': 0, 'n': len(hs), 'objs': sorted(self.idx[h] for h in hs)}
        return {'unmodelled': True}


def registration_oracle(ops, real):
    """one entry per C_FindObjectsInit of the sequence (in order of occurrence): the labels of the objects that search
    registered (first seen in its C_FindObjects results), ordered by the handle value the implementation gave them
    (= its registration order).  Handles are purged by C_Logout / closing the last session / C_CloseAllSessions, so
    the same object can be registered again later, in another order: the oracle is per search, not per epoch."""
    out = []
    last = {}        # session name -> index in out of its latest findinit
    acc = []
    for line, r in zip(ops, real):
        w = line.split()
        op = w[0]
        if op == 'findinit':
            out.append([])
            acc.append([])
            if len(w) > 1:
                last[w[1]] = len(out) - 1
            continue
        if op in ('find', 'findseq') and r.get('rv') == '0x0' and r.get('newlabels') and len(w) > 1 and w[1] in last:
            pairs = dict((a, int(b)) for a, b in (x.split(':') for x in r.get('pairs', '').split(',') if x))
            names = sorted(pairs, key=lambda n: int(n[1:]))
            labs = r['newlabels'].split(',')
            allnew = names[-len(labs):]
            for n, l in zip(allnew, labs):
                acc[last[w[1]]].append((pairs[n], l))
    return [[l for _, l in sorted(e)] for e in acc]


# ------------------------------------------------------------------------------------------- comparison
def canon_rv(s):
    if s in ('noslot', 'unknown-op', 'DIED'):
        return s
    return int(s, 16)


def wrong_key_case(ops, real, j, model):
    """Call j reads (getattr, copy) or matches (findinit) the byte strings of a private object through a session of ANOTHER token
    (known finding F23: object handles are not tied to the session's token).  The library then decrypts with the wrong token
    key: that fails at the padding check in about 255 of 256 cases (CKR_GENERAL_ERROR, which is what the model says) and
    otherwise yields garbage of some length (CKR_OK / CKR_BUFFER_TOO_SMALL).  The outcome depends on the random key and IV,
    not on the call history, so a disagreement on exactly such a call is not a difference between model and code."""
    w = ops[j].split()
    if w[0] not in ('getattr', 'copy', 'findinit') or model.get('rv') != 5:
        return False
    sess_tok, obj_tok, raw = {}, {}, {}

    def nm(a):
        if a.startswith('#'):
            try:
                return raw.get(int(a[1:], 0), a)
            except ValueError:
                return a
        return a
    for i in range(j):
        u = ops[i].split()
        r = real[i] if i < len(real) else {}
        if u[0] in ('fini', 'newproc', 'restart'):
            sess_tok, raw = {}, {}
        if r.get('rv') != '0x0':
            continue
        if 'h' in r and 'raw' in r:
            try:
                raw[int(r['raw'])] = r['h']
            except ValueError:
                pass
        if u[0] == 'open' and 'h' in r:
            sess_tok[r['h']] = u[1]
        elif u[0] in ('create', 'copy') and 'h' in r and len(u) > 1:
            t = sess_tok.get(nm(u[1]))
            if t is not None:
                obj_tok[r['h']] = t
        elif u[0] in ('find', 'findseq') and len(u) > 1:
            t = sess_tok.get(nm(u[1]))
            for pr in [x for x in r.get('pairs', '').split(',') if ':' in x]:
                n_, rv_ = pr.split(':', 1)
                try:
                    raw[int(rv_)] = n_
                except ValueError:
                    pass
                if t is not None:
                    obj_tok.setdefault(n_, t)
    ts = sess_tok.get(nm(w[1])) if len(w) > 1 else None
    if ts is None:
        return False
    if w[0] in ('getattr', 'copy'):
        to = obj_tok.get(nm(w[2])) if len(w) > 2 else None
        return to is not None and to != ts
    return any(t != ts for t in obj_tok.values())


def compare(line, real, model):
    """-> None if they agree, else a description"""
    w = line.split()
    op = w[0]
    if 'rv' not in real:
        return 'no rv in implementation output: ' + real.get('line', '')
    rrv = canon_rv(real['rv'])
    if rrv != model['rv']:
        return 'rv: implementation %s, model %s' % (real['rv'], hex(model['rv']) if isinstance(model['rv'], int) else model['rv'])
    if 'h' in model:
        if real.get('h') != model['h']:
            return 'handle name: implementation %s, model %s' % (real.get('h'), model['h'])
    if 'state' in model:
        if int(real.get('state', -1)) != model['state'] or int(real.get('flags', '0'), 16) != model['flags'] or real.get('tok') != model['tok']:
            return 'session info: implementation state=%s flags=%s tok=%s, model %s' % (real.get('state'), real.get('flags'), real.get('tok'), model)
    if 'attrs' in model:
        ra = real.get('attrs', [])
        q = [it.split(':') for it in w[3:]]
        if len(ra) != len(model['attrs']):
            return 'attribute count'
        for (rt, rl, rx), (mt, ml, md), qq in zip(ra, model['attrs'], q):
            ann = 0 if qq[1] == 'null' else int(qq[1], 0)
            hasptr = qq[1] != 'null'
            exp_len = ann if ml is None else ml
            rlen = UNAVAIL if rl == '-1' else int(rl)
            if rt != mt or rlen != exp_len:
                return 'attribute 0x%x: reported length implementation %s, model %s' % (mt, rl, exp_len)
            if hasptr and exp_len != UNAVAIL and exp_len <= ann:
                exp = md if md is not None else 'a5' * exp_len
                if rx.lower() != exp.lower():
                    return 'attribute 0x%x: bytes implementation %s, model %s' % (mt, rx, exp)
            else:
                if rx not in ('',):
                    return 'attribute 0x%x: implementation wrote %s where the model writes nothing' % (mt, rx)
    if 'ns' in model:
        rns = [int(x) for x in real.get('ns', '').split(',') if x != '']
        if rns != model['ns']:
            return 'find batch sizes: implementation %s, model %s' % (rns, model['ns'])
    if 'n' in model:
        if int(real.get('n', -1)) != model['n']:
            return 'find count: implementation %s, model %s' % (real.get('n'), model['n'])
        robjs = sorted(int(x[1:]) for x in real.get('objs', '').split(',') if x)
        if robjs != model['objs']:
            return 'find result: implementation %s, model %s' % (robjs, model['objs'])
    return None
