#!/usr/bin/env python3
"""K-sizes: the extracted operation / output-length model (coq/Crypto/OpModel.v via ocaml/opdrv) against
the real library: Init / Update / Final / single-part / length-query sequences of all operation kinds in
one session, every announced buffer size around the needed one, zero-length parts, wrong-kind calls."""
import os, random, subprocess, shutil
import vlib, kapi

MECH = {'ecb': ('0x1081', 'ecb', 0, 0), 'cbc': ('0x1082:x:%s', 'cbc', 0, 0), 'cbcpad': ('0x1085:x:%s', 'cbc', 1, 0),
        'ctr': ('0x1086:ctr:128:%s', 'ctr', 0, 0), 'gcm16': ('0x1087:gcm:%s::128', 'gcm', 0, 16), 'gcm12': ('0x1087:gcm:%s::96', 'gcm', 0, 12)}
KIND = {'enc': 2, 'dec': 3, 'digest': 4, 'sign': 5}
OK, SMALL, ACTIVE, NOTINIT = 0, 0x150, 0x90, 0x91


class OpModel:
    def __init__(self, drv):
        self.p = subprocess.Popen([drv], stdin=subprocess.PIPE, stdout=subprocess.PIPE, text=True, bufsize=1)

    def ask(self, line):
        self.p.stdin.write(line + '\n')
        self.p.stdin.flush()
        r = self.p.stdout.readline().split()
        return {'rv': int(r[0]), 'len': None if r[1] == '-' else int(r[1]), 'written': int(r[2]), 'kind': int(r[3])}

    def close(self):
        try:
            self.p.stdin.close(); self.p.wait(timeout=5)
        except Exception:
            self.p.kill()


def bufspecs(rng, need):
    """announced sizes to try for a call that needs `need` bytes: returns list ending with a sufficient one"""
    out = []
    c = rng.random()
    if c < 0.35:
        out.append('null')
    elif c < 0.6 and need > 0:
        out.append(str(rng.choice([0, need - 1, max(0, need - 16), need // 2])))
    elif c < 0.65:
        out.append('null'); out.append('0')
    return out


class Seq:
    """builds (p11drv op line, model line or None, meta) triples"""

    def __init__(self, rng):
        self.r = rng
        self.steps = []

    def add(self, real, model, **meta):
        self.steps.append((real, model, meta))


def gen_sequence(rng):
    s = Seq(rng)
    key = bytes(rng.randrange(256) for _ in range(rng.choice([16, 24, 32]))).hex()
    s.add('init', None)
    s.add('inittoken tfree 31323334 tok0', None)
    s.add('open t0 rw', None)                      # h0
    s.add('create h0 0=u:4 0x100=u:0x1f 0x11=x:%s 0x104=b:1 0x105=b:1 1=b:0 2=b:0 0x103=b:0' % key, None)   # h1 AES
    s.add('create h0 0=u:4 0x100=u:0x10 0x11=x:%s 0x108=b:1 0x10a=b:1 1=b:0 2=b:0 0x103=b:0' % (key * 3)[:96], None)   # h2 generic (HMAC, 48 bytes)
    s.hmac_key = bytes.fromhex((key * 3)[:96])
    for _round in range(rng.randint(1, 3)):
        mname = rng.choice(sorted(MECH))
        mech, mode, pad, tag = MECH[mname]
        iv = bytes(rng.randrange(256) for _ in range(12 if mode == 'gcm' else 16)).hex()
        mstr = mech % iv if '%s' in mech else mech
        blocky = mode in ('ecb', 'cbc')
        L = rng.choice([0, 1, 15, 16, 17, 31, 32, 33, 47, 48, 64, 80, rng.randint(0, 80)])
        if blocky and not pad and rng.random() < 0.85:
            L -= L % 16
        pt = bytes(rng.randrange(256) for _ in range(L))
        # ---- encryption, collecting the ciphertext
        s.add('encinit h0 %s h1' % mstr, 'initsym enc %s %d %d %d' % (mode, pad, tag, L), init=True)
        if rng.random() < 0.25:
            stray(s, rng, 'enc')
        if rng.random() < 0.3:
            emit_io(s, rng, 'enc', 'single', pt, collect='ct')
        else:
            for part in split(rng, pt):
                emit_io(s, rng, 'enc', 'update', part, collect='ct')
                if rng.random() < 0.1:
                    stray(s, rng, 'enc')
            emit_io(s, rng, 'enc', 'final', b'', collect='ct')
        # ---- decryption of what was produced (the harness substitutes the collected ciphertext)
        s.add('decinit h0 %s h1' % mstr, 'initsym dec %s %d %d %d' % (mode, pad, tag, L), init=True, startdec=True)
        if mode == 'gcm' and rng.random() < 0.25:
            emit_io(s, rng, 'dec', 'single', None, usect='trunc%d' % rng.randrange(0, tag))      # malformed: shorter than the tag
        elif rng.random() < 0.3:
            emit_io(s, rng, 'dec', 'single', None, usect='all')
        else:
            s.add(None, None, plan_dec=True, seed=rng.randrange(1 << 30))
        if rng.random() < 0.5:
            fixed(s, rng)
    return s


def split(rng, data):
    parts = []
    i = 0
    while i < len(data):
        n = rng.choice([0, 1, 1, 15, 16, 17, 32, len(data) - i])
        n = min(n, len(data) - i)
        parts.append(data[i:i + n])
        i += n
    if rng.random() < 0.3:
        parts.insert(rng.randrange(len(parts) + 1), b'')
    return parts


def emit_io(s, rng, kind, phase, data, collect=None, usect=None):
    s.add(None, None, io=(kind, phase), data=data, collect=collect, usect=usect, choice=rng.random(), choice2=rng.randrange(1 << 30))


def stray(s, rng, active_kind):
    """calls that do not belong to the active operation"""
    c = rng.choice(['init', 'other', 'otherfinal'])
    if c == 'init':
        k = rng.choice(['digestinit h0 0x250', 'encinit h0 0x1081 h1', 'signinit h0 0x251 h2', 'findinit h0'])
        m = {'d': 'initdigest 32', 'e': 'initsym enc ecb 0 0 0', 's': 'initmac 32', 'f': 'initfind'}[k[0]]
        s.add(k, m)
    elif c == 'other':
        other = 'dec' if active_kind == 'enc' else 'enc'
        s.add('%supd h0 00112233445566778899aabbccddeeff 64' % other, 'update %d 16 64' % KIND[other])
        s.add('digestupd h0 0011', 'update %d 2 -' % KIND['digest'])
    else:
        s.add('digestfin h0 64', 'final %d 64' % KIND['digest'])
        s.add('signfin h0 64', 'final %d 64' % KIND['sign'])


def fixed(s, rng):
    """digest and HMAC: fixed output size"""
    if rng.random() < 0.5:
        s.add('digestinit h0 0x250', 'initdigest 32', init=True)
        data = bytes(rng.randrange(256) for _ in range(rng.randint(1, 40)))
        if rng.random() < 0.5:
            for b in rng.sample(['null', '0', '31', '32', '40'], 3) + ['32']:
                s.add('digest h0 %s %s' % (data.hex(), b), 'single %d %d %s' % (KIND['digest'], len(data), '-' if b == 'null' else b))
        else:
            s.add('digestupd h0 %s' % data.hex(), 'update %d %d -' % (KIND['digest'], len(data)))
            for b in rng.sample(['null', '0', '31', '32', '40'], 3) + ['33']:
                s.add('digestfin h0 %s' % b, 'final %d %s' % (KIND['digest'], '-' if b == 'null' else b))
        s.add('digestfin h0 64', 'final %d 64' % KIND['digest'])      # the operation is gone
    else:
        s.add('signinit h0 0x251 h2', 'initmac 32', init=True)
        data = bytes(rng.randrange(256) for _ in range(rng.randint(1, 40)))
        if rng.random() < 0.5:
            for b in rng.sample(['null', '0', '31', '32', '40'], 3) + ['32']:
                s.add('sign h0 %s %s' % (data.hex(), b), 'single %d %d %s' % (KIND['sign'], len(data), '-' if b == 'null' else b))
        else:
            s.add('signupd h0 %s' % data.hex(), 'update %d %d -' % (KIND['sign'], len(data)))
            for b in rng.sample(['null', '0', '31', '32', '40'], 3) + ['32']:
                s.add('signfin h0 %s' % b, 'final %d %s' % (KIND['sign'], '-' if b == 'null' else b))
        s.add('signupd h0 00', 'update %d 1 -' % KIND['sign'])


def run_sequence(lib, p11drv, opdrv, seed, idx):
    """interactive: the real driver and the model run in lock step (the ciphertext produced by the real
    encryption feeds the decryption).  Returns dict with trace, first disagreement, monitor alarms."""
    rng = random.Random(seed * 7919 + idx)
    s = gen_sequence(rng)
    d = vlib.mktmp()
    from p11i import P11 as _P11b
    conf = vlib.write_conf(d, backend=_P11b.DEFAULT_BACKEND)
    env = dict(os.environ)
    env['SOFTHSM2_CONF'] = conf
    from p11i import P11 as _P11
    env.update(_P11.EXTRA_ENV)
    rp = subprocess.Popen([p11drv, lib, '-'], stdin=subprocess.PIPE, stdout=subprocess.PIPE, text=True, bufsize=1, env=env)
    m = OpModel(opdrv)
    trace = []
    dis = None
    alarms = []
    ct = b''
    state = {'in': 0, 'out': 0, 'tag': 0, 'active': None, 'hmac_key': getattr(s, 'hmac_key', None)}

    def real(line):
        rp.stdin.write(line + '\n')
        rp.stdin.flush()
        out = rp.stdout.readline()
        r = kapi.parse_real_line(out) if out.strip() else {'rv': 'DIED', 'line': out}
        trace.append((line, r))
        return r

    def both(line, mline, meta):
        nonlocal dis
        r = real(line)
        if mline is None:
            return r, None
        mr = m.ask(mline)
        why = compare(line, r, mr)
        monitor_step(line, r, state, alarms, len(trace) - 1)
        if why and dis is None:
            dis = (len(trace) - 1, why)
        return r, mr

    rt = {'pt_in': b'', 'pt_out': b'', 'whole': True, 'enc_done': False}

    def completed(kind, phase, data, r):
        """round trip of contents: what is decrypted from the library's own ciphertext is the data fed ONCE per call, however
        many length queries and too-small buffers preceded the call that completed"""
        if kind == 'enc' and phase != 'final':
            rt['pt_in'] += data or b''
        if kind == 'enc' and phase in ('final', 'single'):
            rt['enc_done'] = True
        if kind == 'dec':
            o = r.get('out', '')
            rt['pt_out'] += bytes.fromhex(o) if o not in ('', '.') else b''
            if phase in ('final', 'single') and rt['whole'] and rt['enc_done'] and rt['pt_out'] != rt['pt_in']:
                alarms.append((len(trace) - 1, 'decrypting the ciphertext the library produced gives %d bytes that are not the %d bytes fed to the encryption once (length queries or CKR_BUFFER_TOO_SMALL answers changed an operation)' % (len(rt['pt_out']), len(rt['pt_in']))))

    def do_io(kind, phase, data, collect):
        """one logical call with its size-query / too-small preliminaries, then a sufficient buffer"""
        nonlocal ct
        rng2 = random.Random(meta.get('choice2', 0))
        opn = {('enc', 'update'): 'encupd', ('enc', 'final'): 'encfin', ('enc', 'single'): 'enc',
               ('dec', 'update'): 'decupd', ('dec', 'final'): 'decfin', ('dec', 'single'): 'dec'}[(kind, phase)]
        dhex = data.hex() if data else '.'
        def line_for(b):
            if phase == 'final':
                return '%s h0 %s' % (opn, b), 'final %d %s' % (KIND[kind], '-' if b == 'null' else b)
            return '%s h0 %s %s' % (opn, dhex, b), '%s %d %d %s' % ('update' if phase == 'update' else 'single', KIND[kind], len(data or b''), '-' if b == 'null' else b)
        # first a query or a too-small buffer, sometimes
        need = None
        c = meta['choice']
        pre = []
        if c < 0.35:
            pre = ['null']
        elif c < 0.45:
            pre = ['null', 'S']
        elif c < 0.6:
            pre = ['S']
        for b in pre:
            if b == 'S':
                if need is None:
                    b = '0'
                else:
                    b = str(rng2.choice([0, max(0, need - 1), need // 2]))
                    if need == 0:
                        continue
            rl, ml = line_for(b)
            r, mr = both(rl, ml, meta)
            if b != 'null' and r.get('rv') == '0x0':
                # the small buffer was enough after all: the call is complete
                if collect:
                    ct += bytes.fromhex(r.get('out', ''))
                completed(kind, phase, data, r)
                return
            if r.get('rv') in ('0x0', '0x150') and 'len' in r:
                need = int(r['len'])
            if r.get('rv') not in ('0x0', '0x150'):
                return
        if need is None or need > 4096:
            need = len(data or b'') + 16 + 16
        b = str(need + rng2.choice([0, 0, 0, 7]))
        for _attempt in range(3):
            rl, ml = line_for(b)
            r, mr = both(rl, ml, meta)
            if r.get('rv') == '0x150' and 'len' in r and int(r['len']) <= 1 << 20:
                b = r['len']          # retry with exactly the reported length
                continue
            break
        if collect and r.get('rv') == '0x0':
            ct += bytes.fromhex(r.get('out', ''))
        if r.get('rv') == '0x0':
            completed(kind, phase, data, r)

    try:
        for (rl, ml, meta) in s.steps:
            if dis is not None:
                break
            if meta.get('startdec'):
                pass
            if 'io' in meta:
                kind, phase = meta['io']
                data = meta['data']
                if meta.get('usect') == 'all':
                    data = ct
                elif (meta.get('usect') or '').startswith('trunc'):
                    data = ct[:int(meta['usect'][5:])]
                    rt['whole'] = False
                do_io(kind, phase, data, meta.get('collect'))
                continue
            if meta.get('plan_dec'):
                rngd = random.Random(meta['seed'])
                for part in split(rngd, ct) or [b'']:
                    meta2 = {'choice': rngd.random(), 'choice2': rngd.randrange(1 << 30)}
                    meta = meta2
                    do_io('dec', 'update', part, None)
                    if dis is not None:
                        break
                meta = {'choice': rngd.random(), 'choice2': rngd.randrange(1 << 30)}
                do_io('dec', 'final', b'', None)
                continue
            if rl is None:
                continue
            if meta.get('init') and rl.startswith('encinit'):
                ct = b''
                rt['pt_in'], rt['whole'], rt['enc_done'] = b'', True, False
            if meta.get('init') and rl.startswith('decinit'):
                rt['pt_out'] = b''
            r, mr = both(rl, ml, meta)
            if meta.get('init') and ml is not None and r.get('rv') != '0x0':
                break      # the mechanism is not available: nothing to compare further
    finally:
        try:
            rp.stdin.close(); rp.wait(timeout=10)
        except Exception:
            rp.kill()
        m.close()
        shutil.rmtree(d, ignore_errors=True)
    return {'i': idx, 'trace': trace, 'dis': dis, 'alarms': alarms}


def compare(line, r, mr):
    if 'rv' not in r or r['rv'] in ('DIED',):
        return 'the implementation died or gave no result: %s' % r.get('line')
    rrv = int(r['rv'], 16)
    if rrv != mr['rv']:
        return 'rv: implementation 0x%x, model 0x%x' % (rrv, mr['rv'])
    w = line.split()
    if 'len' in r and w[0] not in ('digestupd', 'signupd'):
        rlen = int(r['len'])
        b = w[-1]
        announced = 0 if b == 'null' else int(b)
        exp = announced if mr['len'] is None else mr['len']
        if rrv in (OK, SMALL) and rlen != exp:
            return 'reported length: implementation %d, model %d' % (rlen, exp)
        if rrv == OK and b != 'null':
            wrote = len(r.get('out', '')) // 2
            if wrote != mr['written']:
                return 'bytes written: implementation %d, model %d' % (wrote, mr['written'])
    return None


def monitor_step(line, r, st, alarms, i):
    """the property read on the real trace, independent of the model: no overwrite; a reported length is
    sufficient (the retry with exactly that size is not answered BUFFER_TOO_SMALL again with a larger one)
    and at most input + buffered + one block + tag"""
    w = line.split()
    op = w[0]
    if r.get('ovw') == '1':
        alarms.append((i, 'a call wrote beyond the announced / reported output length'))
    if 'rv' not in r or r['rv'] == 'DIED':
        alarms.append((i, 'the process died'))
        return
    rv = int(r['rv'], 16)
    # digest / HMAC contents: a length query or CKR_BUFFER_TOO_SMALL leaves the operation UNCHANGED, so the value finally
    # returned is the SHA-256 / HMAC-SHA-256 of exactly the data fed by the calls that were not mere queries
    if op in ('digestinit', 'signinit') and rv == OK:
        st['fix'] = {'kind': op[:3], 'data': bytearray(), 'key': st.get('hmac_key')} if (w[2] in ('0x250', '0x251')) else None
    elif st.get('fix') and op in ('digestupd', 'signupd') and st['fix']['kind'] == op[:3] and rv == OK:
        st['fix']['data'] += bytes.fromhex(w[2]) if w[2] != '.' else b''
    elif st.get('fix') and op in ('digest', 'sign', 'digestfin', 'signfin') and st['fix']['kind'] == op[:3]:
        single = op in ('digest', 'sign')
        if rv == OK and w[-1] != 'null' and 'out' in r:
            import hashlib, hmac as _hmac
            data = bytes(st['fix']['data']) + (bytes.fromhex(w[2]) if single and w[2] != '.' else b'')
            exp = hashlib.sha256(data).digest() if st['fix']['kind'] == 'dig' else (_hmac.new(st['fix']['key'], data, hashlib.sha256).digest() if st['fix']['key'] else None)
            got = bytes.fromhex(r['out']) if r['out'] not in ('', '.') else b''
            if exp is not None and got != exp:
                alarms.append((i, 'the %s returned after length queries / CKR_BUFFER_TOO_SMALL answers is not that of the data fed once: the queries changed the operation' % ('digest' if st['fix']['kind'] == 'dig' else 'MAC')))
            st['fix'] = None
        elif rv not in (OK, SMALL):
            st['fix'] = None
    if op in ('encinit', 'decinit') and rv == OK:
        st['in'] = st['out'] = 0
        st['active'] = op[:3]
        st['tag'] = 16 if ':gcm:' in line and line.endswith('128 h1') else (12 if ':gcm:' in line else 0)
        st['last_need'] = None
    elif op in ('encupd', 'decupd', 'enc', 'dec', 'encfin', 'decfin') and st.get('active') == op[:3]:
        inlen = 0 if op.endswith('fin') or w[2] == '.' else len(w[2]) // 2
        if rv in (OK, SMALL) and 'len' in r:
            rep = int(r['len'])
            bound = inlen + (st['in'] - st['out']) + 16 + st['tag']
            if (w[-1] == 'null' or rv == SMALL) and rep > bound:
                alarms.append((i, 'reported output length %d exceeds input + buffered + one block + tag = %d' % (rep, bound)))
            if rv == SMALL and st.get('last_need') is not None and w[-1] != 'null' and int(w[-1]) >= st['last_need']:
                alarms.append((i, 'a buffer of the previously reported length %d was answered CKR_BUFFER_TOO_SMALL' % st['last_need']))
            st['last_need'] = rep if (w[-1] == 'null' or rv == SMALL) else None
        if rv == OK and w[-1] != 'null':
            st['in'] += inlen
            st['out'] += len(r.get('out', '')) // 2
            if op in ('enc', 'dec', 'encfin', 'decfin'):
                st['active'] = None
        elif rv not in (OK, SMALL):
            st['active'] = None
