(* opdrv — runs the extracted operation / output-length model (coq/Crypto/OpModel.v).  Glue only. *)
open Op_model

let rec pos_of_int64 (x : int64) : positive =
  if x = 1L then XH
  else
    let h = Int64.shift_right_logical x 1 in
    if Int64.logand x 1L = 1L then XI (pos_of_int64 h) else XO (pos_of_int64 h)
let n_of_int64 x = if x = 0L then N0 else Npos (pos_of_int64 x)
let rec int64_of_pos = function
  | XH -> 1L
  | XO p -> Int64.shift_left (int64_of_pos p) 1
  | XI p -> Int64.logor (Int64.shift_left (int64_of_pos p) 1) 1L
let int64_of_n = function N0 -> 0L | Npos p -> int64_of_pos p
let n_of_string s =
  let s = if String.length s > 1 && s.[0] = '0' && (s.[1] = 'x' || s.[1] = 'X') then s else "0u" ^ s in
  n_of_int64 (Int64.of_string s)
let string_of_n x = Printf.sprintf "%Lu" (int64_of_n x)

let buf s = if s = "-" then None else Some (n_of_string s)
let mode = function "ecb" -> ECB | "cbc" -> CBC | "ctr" -> CTR | "gcm" -> GCM | s -> failwith ("mode " ^ s)
let kindname = function
  | "enc" -> n_of_string "2" | "dec" -> n_of_string "3" | "digest" -> n_of_string "4" | "sign" -> n_of_string "5" | s -> n_of_string s

let () =
  let st = ref ANone in
  try
    while true do
      let line = input_line stdin in
      let w = Array.of_list (List.filter (fun x -> x <> "") (String.split_on_char ' ' line)) in
      if Array.length w = 0 then print_string "\n"
      else if w.(0) = "reset" then (st := ANone; print_string "ok\n")
      else begin
        let c =
          match w.(0) with
          | "initsym" -> CInitSym (w.(1) = "enc", mode w.(2), w.(3) = "1", n_of_string w.(4), n_of_string w.(5))
          | "initdigest" -> CInitDigest (n_of_string w.(1))
          | "initmac" -> CInitMac (n_of_string w.(1))
          | "initfind" -> CInitFind
          | "update" -> CUpdate (kindname w.(1), n_of_string w.(2), buf w.(3))
          | "final" -> CFinal (kindname w.(1), buf w.(2))
          | "single" -> CSingle (kindname w.(1), n_of_string w.(2), buf w.(3))
          | "findfinal" -> CFindFinal
          | s -> failwith ("unknown call " ^ s)
        in
        let r = do_call !st c in
        st := r.r_st;
        Printf.printf "%s %s %s %s\n" (string_of_n r.r_rv)
          (match r.r_len with None -> "-" | Some x -> string_of_n x)
          (string_of_n r.r_written) (string_of_n (kind_of r.r_st))
      end;
      flush stdout
    done
  with End_of_file -> ()
