(* paddrv — runs the extracted padding / cutting / parity model (coq/Crypto/Pad.v).  Glue only.
   commands:  pad <bs> <hex>   unpad <bs> <hex>   pad3394 <hex>   derive <des:0|1> <n> <hex>   parity <hex>   lenlax|lenstrict <keytype> <value_len>   agree <keytype> <n> <hex>
   answers:   <hex> | "." (empty) | "-" (None) *)
open Pad_model

let rec pos_of_int x = if x = 1 then XH else if x land 1 = 1 then XI (pos_of_int (x lsr 1)) else XO (pos_of_int (x lsr 1))
let n_of_int x = if x = 0 then N0 else Npos (pos_of_int x)
let rec int_of_pos = function XH -> 1 | XO p -> 2 * int_of_pos p | XI p -> (2 * int_of_pos p) + 1
let int_of_n = function N0 -> 0 | Npos p -> int_of_pos p
let rec nat_of_int x = if x <= 0 then O else S (nat_of_int (x - 1))
let hexval c = match c with '0' .. '9' -> Char.code c - 48 | 'a' .. 'f' -> Char.code c - 87 | 'A' .. 'F' -> Char.code c - 55 | _ -> 0
let bytes_of_hex s = if s = "." then [] else List.init (String.length s / 2) (fun i -> n_of_int ((hexval s.[2 * i] * 16) + hexval s.[(2 * i) + 1]))
let show l = if l = [] then "." else String.concat "" (List.map (fun b -> Printf.sprintf "%02x" (int_of_n b)) l)
let showo = function None -> "-" | Some l -> show l

let () =
  try
    while true do
      let w = Array.of_list (List.filter (fun x -> x <> "") (String.split_on_char ' ' (input_line stdin))) in
      (match w.(0) with
      | "pad" -> print_endline (show (pkcs7_pad (nat_of_int (int_of_string w.(1))) (bytes_of_hex w.(2))))
      | "unpad" -> print_endline (showo (pkcs7_unpad (nat_of_int (int_of_string w.(1))) (bytes_of_hex w.(2))))
      | "pad3394" -> print_endline (show (rfc3394_pad (bytes_of_hex w.(1))))
      | "derive" -> print_endline (showo (derive_value (w.(1) = "1") (nat_of_int (int_of_string w.(2))) (bytes_of_hex w.(3))))
      | "lenlax" | "lenstrict" ->
          let f = if w.(0) = "lenlax" then derive_len_lax else derive_len_strict in
          (match f (n_of_int (int_of_string w.(1))) (n_of_int (int_of_string w.(2))) with
           | Inl rv -> Printf.printf "rv %d\n" (int_of_n rv)
           | Inr n -> Printf.printf "len %d\n" (int_of_n n))
      | "agree" -> print_endline (showo (agree_value (n_of_int (int_of_string w.(1))) (n_of_int (int_of_string w.(2))) (bytes_of_hex w.(3))))
      | "parity" -> print_endline (show (odd_parity (bytes_of_hex w.(1))))
      | _ -> print_endline "?");
      flush stdout
    done
  with End_of_file -> ()
