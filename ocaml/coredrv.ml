(* coredrv — runs the extracted P11 core model (coq/P11/Core.v) on a numeric op stream.
   One op per input line, one result line per op (protocol: tools/k_api.py).  Hand-written glue:
   parsing and printing only; every decision is taken by the extracted [step]. *)
open Core_model

let rec pos_of_int64 (x : int64) : positive =
  if x = 1L then XH
  else
    let h = Int64.shift_right_logical x 1 in
    if Int64.logand x 1L = 1L then XI (pos_of_int64 h) else XO (pos_of_int64 h)
let n_of_int64 x = if x = 0L then N0 else Npos (pos_of_int64 x)
let rec int64_of_pos = function
  | XH -> 1L
  | XO p -> Int64.shift_left (int64_of_pos p) 1
  | XI p -> Int64.logor (Int64.shift_left (int64_of_pos p) 1) 1L
let int64_of_n = function N0 -> 0L | Npos p -> int64_of_pos p
let n_of_string s =
  let s = if String.length s > 1 && s.[0] = '0' && (s.[1] = 'x' || s.[1] = 'X') then s else "0u" ^ s in
  n_of_int64 (Int64.of_string s)
let string_of_n x = Printf.sprintf "%Lu" (int64_of_n x)

let hexval c = match c with '0' .. '9' -> Char.code c - 48 | 'a' .. 'f' -> Char.code c - 87 | 'A' .. 'F' -> Char.code c - 55 | _ -> 0
let bytes_of_hex s =
  let n = String.length s / 2 in
  List.init n (fun i -> n_of_int64 (Int64.of_int ((hexval s.[2 * i] * 16) + hexval s.[(2 * i) + 1])))
let hex_of_bytes l = String.concat "" (List.map (fun b -> Printf.sprintf "%02Lx" (int64_of_n b)) l)
(* "-" = NULL pointer, "." = empty, else hex *)
let optbytes s = if s = "-" then None else if s = "." then Some [] else Some (bytes_of_hex s)
let show_optbytes = function None -> "-" | Some [] -> "." | Some b -> hex_of_bytes b

let tref s =
  if s = "free" then TFree
  else if String.length s > 3 && String.sub s 0 3 = "raw" then TRaw (n_of_string (String.sub s 3 (String.length s - 3)))
  else TTok (n_of_string (String.sub s 1 (String.length s - 1)))

(* template: <n> {<type> <val> <len>}* starting at index i *)
let template w i =
  let n = int_of_string (List.nth w i) in
  List.init n (fun j ->
      { te_type = n_of_string (List.nth w (i + 1 + (3 * j)));
        te_val = optbytes (List.nth w (i + 2 + (3 * j)));
        te_len = n_of_string (List.nth w (i + 3 + (3 * j))) })

let query w i =
  let n = int_of_string (List.nth w i) in
  List.init n (fun j ->
      let b = List.nth w (i + 2 + (2 * j)) in
      (n_of_string (List.nth w (i + 1 + (2 * j))), if b = "-" then None else Some (n_of_string b)))

let parse w =
  let a k = List.nth w k in
  let num k = n_of_string (a k) in
  match a 0 with
  | "init" -> OInit
  | "fini" -> OFini
  | "newproc" -> ONewProc
  | "inittoken" -> OInitToken (tref (a 1), optbytes (a 2), num 3)
  | "open" -> OOpen (tref (a 1), num 2)
  | "close" -> OClose (num 1)
  | "closeall" -> OCloseAll (tref (a 1))
  | "sinfo" -> OSInfo (num 1)
  | "login" -> OLogin (num 1, num 2, optbytes (a 3))
  | "logout" -> OLogout (num 1)
  | "initpin" -> OInitPin (num 1, optbytes (a 2))
  | "setpin" -> OSetPin (num 1, optbytes (a 2), optbytes (a 3))
  | "create" -> OCreate (num 1, template w 2)
  | "copy" -> OCopy (num 1, num 2, template w 3)
  | "destroy" -> ODestroy (num 1, num 2)
  | "objsize" -> OObjSize (num 1, num 2)
  | "getattr" -> OGetAttr (num 1, num 2, query w 3)
  | "setattr" -> OSetAttr (num 1, num 2, template w 3)
  | "findinit" ->
      let tm = template w 2 in
      let i = 3 + (3 * List.length tm) in
      let np = if List.length w > i then int_of_string (a i) else 0 in
      OFindInit (num 1, tm, List.init np (fun j -> match optbytes (a (i + 1 + j)) with Some b -> b | None -> []))
  | "find" -> OFind (num 1, num 2)
  | "findfinal" -> OFindFinal (num 1)
  | "useinit" -> OUseInit (num 1, num 2, num 3)
  | s -> failwith ("unknown op " ^ s)

let show = function
  | RRv rv -> "rv " ^ string_of_n rv
  | RHandle h -> "handle " ^ string_of_n h
  | RInfo (st, fl, tok) -> Printf.sprintf "info %s %s %s" (string_of_n st) (string_of_n fl) (string_of_n tok)
  | RAttrs (rv, l) ->
      Printf.sprintf "attrs %s %d%s" (string_of_n rv) (List.length l)
        (String.concat ""
           (List.map
              (fun ((t, len), data) ->
                Printf.sprintf " %s %s %s" (string_of_n t) (match len with None -> "-" | Some x -> string_of_n x) (show_optbytes data))
              l))
  | RFound hs -> Printf.sprintf "found %d%s" (List.length hs) (String.concat "" (List.map (fun h -> " " ^ string_of_n h) hs))
  | RNoSlot -> "noslot"
  | RUnmodelled -> "unmodelled"

let () =
  let st = ref init_state in
  try
    while true do
      let line = input_line stdin in
      let w = List.filter (fun x -> x <> "") (String.split_on_char ' ' line) in
      (match w with
      | [] -> print_string "\n"
      | "reset" :: _ -> st := init_state; print_string "ok\n"
      | "label" :: h :: _ ->
          (match handle_label !st (n_of_string h) with
          | Some b -> print_string ("label " ^ show_optbytes (Some b) ^ "\n")
          | None -> print_string "label -\n")
      | _ ->
          let o = parse w in
          let s1, r = step !st o in
          st := s1;
          print_string (show r ^ "\n"));
      flush stdout
    done
  with End_of_file -> ()
