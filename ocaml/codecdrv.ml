(* codecdrv — runs the extracted object-file codec (coq/Store/Codec.v).  Glue only.
   commands:  dec <hex>     ->  U | I | V <gen|-> <attr>;<attr>;...   attr = <type>:<kind>:<value>
                                 kind b (0/1) u (decimal) x (hex or .) m (a,b,..) t {<attr>|<attr>..}
              reenc <hex>   ->  hex of encode_obj gen (decoded attributes), or - when the file does not decode *)
open Codec_model

let rec pos_of_int x = if x = 1 then XH else if x land 1 = 1 then XI (pos_of_int (x lsr 1)) else XO (pos_of_int (x lsr 1))
let n_of_int x = if x = 0 then N0 else Npos (pos_of_int x)
(* 64-bit values do not fit OCaml's 63-bit int: print through strings *)
let rec string_of_pos p =
  (* decimal via repeated doubling on a digit list *)
  let double_plus ds c =
    let rec go ds c = match ds with [] -> if c = 0 then [] else [c] | d :: r -> let v = (2 * d) + c in (v mod 10) :: go r (v / 10) in
    go ds c in
  let rec bits p acc = match p with XH -> 1 :: acc | XO q -> bits q (0 :: acc) | XI q -> bits q (1 :: acc) in
  let bl = bits p [] in
  let ds = List.fold_left (fun ds b -> double_plus ds b) [] bl in
  String.concat "" (List.rev_map string_of_int ds)
let string_of_n = function N0 -> "0" | Npos p -> string_of_pos p
let rec int_of_pos = function XH -> 1 | XO p -> 2 * int_of_pos p | XI p -> (2 * int_of_pos p) + 1
let int_of_n = function N0 -> 0 | Npos p -> int_of_pos p
let hexval c = match c with '0' .. '9' -> Char.code c - 48 | 'a' .. 'f' -> Char.code c - 87 | 'A' .. 'F' -> Char.code c - 55 | _ -> 0
let bytes_of_hex s = if s = "." then [] else List.init (String.length s / 2) (fun i -> n_of_int ((hexval s.[2 * i] * 16) + hexval s.[(2 * i) + 1]))
let show l =
  if l = [] then "." else begin
    let b = Buffer.create 64 in
    List.iter (fun x -> Buffer.add_string b (Printf.sprintf "%02x" (int_of_n x))) l;
    Buffer.contents b end

let show_mapval = function
  | MBool b -> "b:" ^ (if b then "1" else "0")
  | MULong n -> "u:" ^ string_of_n n
  | MBytes b -> "x:" ^ show b
  | MMechs l -> "m:" ^ String.concat "," (List.map string_of_n l)
let show_val = function
  | CBool b -> "b:" ^ (if b then "1" else "0")
  | CULong n -> "u:" ^ string_of_n n
  | CBytes b -> "x:" ^ show b
  | CMechs l -> "m:" ^ String.concat "," (List.map string_of_n l)
  | CMap l -> "t:{" ^ String.concat "|" (List.map (fun (t, v) -> string_of_n t ^ ":" ^ show_mapval v) l) ^ "}"
let show_obj o = String.concat ";" (List.map (fun (t, v) -> string_of_n t ^ ":" ^ show_val v) o)

let () =
  try
    while true do
      let w = Array.of_list (List.filter (fun x -> x <> "") (String.split_on_char ' ' (input_line stdin))) in
      (match w.(0) with
      | "dec" ->
          (match refresh_file (bytes_of_hex (if Array.length w > 1 then w.(1) else ".")) with
           | RUnchanged -> print_endline "U"
           | RInvalid -> print_endline "I"
           | RValid (g, o) -> print_endline ("V " ^ (match g with None -> "-" | Some g -> string_of_n g) ^ " " ^ show_obj o))
      | "reenc" ->
          (match decode_obj (bytes_of_hex w.(1)) with
           | None -> print_endline "-"
           | Some (g, o) -> print_endline (show (encode_obj g o)))
      | _ -> print_endline "?");
      flush stdout
    done
  with End_of_file -> ()
